package main

// sdom.go: the text domain of the abstract interpreter. A function that decodes a piece of text (the body of a quoted
// identifier, of a raw string) is run on a symbolic text of a given shape: a sequence of cells, each either one
// character (a known byte, a byte confined to a class by range facts, a byte known only not to be one of some bytes, a
// character outside ASCII) or a stretch of unexamined bytes of unknown length >= 0 none of which is one of some bytes
// (no backslash). A position in the text is a linear form over the lengths of the stretches; slicing, indexing, len,
// comparisons of positions, the searching functions of package strings, the rune decoder, ranging over a string, the
// methods of strings.Builder, strings.ReplaceAll and strings.Replacer are interpreted on the cells. Reading the first
// byte of a stretch splits it (it is empty, or it starts with one more byte of the same kind). What the function writes
// and returns is a sequence of pieces of the input, constants and computed characters, which the rule compares with what
// a reference transducer for the specified escapes produces on the same cells.

import (
	"fmt"
	"go/constant"
	"go/token"
	"go/types"
	"sort"
	"strings"

	"golang.org/x/tools/go/ssa"
)

type scell struct {
	gap    bool
	val    AV      // character cells: the byte (or, outside ASCII, the code point)
	size   linForm // length in bytes
	excl   string  // bytes this cell (every byte of a stretch) is known not to be
	wide   bool    // a character outside ASCII (size 2..4)
	name   string
	isByte bool // one byte, which may be part of a longer character
	cont   bool // a stretch: the continuation bytes of the character whose first byte is the cell before
}

type sitem struct {
	kind   string // "range", "const", "rune", "decode", "unknown"
	lo, hi linForm
	c      int64
	s      string
	v, w   AV
}

type strDom struct {
	p    *Program
	e    *Engine
	obj  *avObj
	root avSym
	syms map[string]avSym
}

// ---------------------------------------------------------------- linear forms

func lfConst(c int64) linForm { return linForm{map[string]int64{}, c, true} }

func lfAdd(a, b linForm, sign int64) linForm {
	if !a.ok || !b.ok {
		return linForm{}
	}
	out := linForm{map[string]int64{}, a.c + sign*b.c, true}
	for k, v := range a.syms {
		out.syms[k] += v
	}
	for k, v := range b.syms {
		out.syms[k] += sign * v
	}
	for k, v := range out.syms {
		if v == 0 {
			delete(out.syms, k)
		}
	}
	return out
}

func lfScale(a linForm, m int64) linForm {
	if !a.ok {
		return a
	}
	out := linForm{map[string]int64{}, a.c * m, true}
	for k, v := range a.syms {
		if v*m != 0 {
			out.syms[k] = v * m
		}
	}
	return out
}

func lfKey(a linForm) string {
	if !a.ok {
		return "?"
	}
	var ks []string
	for k := range a.syms {
		ks = append(ks, k)
	}
	sort.Strings(ks)
	var sb strings.Builder
	for _, k := range ks {
		fmt.Fprintf(&sb, "%+d*%s", a.syms[k], k)
	}
	fmt.Fprintf(&sb, "%+d", a.c)
	return sb.String()
}

func lfEq(a, b linForm) bool { return a.ok && b.ok && lfKey(a) == lfKey(b) }

// lin linearises an integer value over the symbols of the text (lengths of stretches, character values); symbols the
// path has pinned to one value count as that value.
func (d *strDom) lin(st *State, v AV) linForm {
	switch x := v.(type) {
	case avConst:
		if x.v.Kind() == constant.Int {
			if i, ok := constant.Int64Val(x.v); ok {
				return lfConst(i)
			}
		}
	case avSym:
		if k, ok := st.KnownInt(x); ok {
			return lfConst(k)
		}
		if x.tag == "len" && x.id == 0 && x.payload != nil {
			if lo, hi, ok := d.window(st, x.payload); ok {
				return lfAdd(hi, lo, -1)
			}
		}
		d.syms[avKey(x)] = x
		return linForm{map[string]int64{avKey(x): 1}, 0, true}
	case avBin:
		a, b := d.lin(st, x.x), d.lin(st, x.y)
		switch x.op {
		case token.ADD:
			return lfAdd(a, b, 1)
		case token.SUB:
			return lfAdd(a, b, -1)
		case token.MUL:
			if a.ok && len(a.syms) == 0 {
				return lfScale(b, a.c)
			}
			if b.ok && len(b.syms) == 0 {
				return lfScale(a, b.c)
			}
		case token.SHL:
			if b.ok && len(b.syms) == 0 && b.c >= 0 && b.c < 32 {
				return lfScale(a, int64(1)<<uint(b.c))
			}
		}
	}
	return linForm{}
}

// bounds of a linear form under the path's range facts.
func (d *strDom) bounds(st *State, a linForm) (lo, hi int64, ok bool) {
	if !a.ok {
		return 0, 0, false
	}
	lo, hi = a.c, a.c
	for k, coef := range a.syms {
		sy, known := d.syms[k]
		if !known {
			return 0, 0, false
		}
		l, h, _ := st.intRange(sy)
		if l < -(1<<40) || h > 1<<40 {
			if coef > 0 && l >= -(1<<40) {
				lo += coef * l
				hi = 1 << 50
				continue
			}
			if coef < 0 && l >= -(1<<40) {
				hi += coef * l
				lo = -(1 << 50)
				continue
			}
			return -(1 << 50), 1 << 50, true
		}
		if coef > 0 {
			lo += coef * l
			hi += coef * h
		} else {
			lo += coef * h
			hi += coef * l
		}
	}
	return lo, hi, true
}

func (d *strDom) lfAV(a linForm) AV {
	var out AV = avConst{constant.MakeInt64(a.c)}
	var ks []string
	for k := range a.syms {
		ks = append(ks, k)
	}
	sort.Strings(ks)
	first := len(ks) > 0 && a.c == 0
	for i, k := range ks {
		var term AV = d.syms[k]
		if c := a.syms[k]; c != 1 {
			term = avBin{token.MUL, avConst{constant.MakeInt64(c)}, term}
		}
		if first && i == 0 {
			out = term
			continue
		}
		out = avBin{token.ADD, out, term}
	}
	return out
}

// ---------------------------------------------------------------- cells

func (d *strDom) cells(st *State) []scell {
	v, _ := st.load(avPtr{d.obj, "#cells"})
	cs, _ := v.([]scell)
	return cs
}

func (d *strDom) setCells(st *State, cs []scell) { st.store(avPtr{d.obj, "#cells"}, cs) }

func (d *strDom) items(st *State, key string) []sitem {
	v, _ := st.load(avPtr{d.obj, "#out:" + key})
	it, _ := v.([]sitem)
	return it
}

func (d *strDom) addItem(st *State, key string, it sitem) {
	old := d.items(st, key)
	out := make([]sitem, len(old), len(old)+1)
	copy(out, old)
	st.store(avPtr{d.obj, "#out:" + key}, append(out, it))
}

// size of a cell under the path's facts.
func (d *strDom) sizeOf(st *State, c scell) linForm {
	out := lfConst(c.size.c)
	for k, coef := range c.size.syms {
		if sy, ok := d.syms[k]; ok {
			if v, known := st.KnownInt(sy); known {
				out.c += coef * v
				continue
			}
		}
		out.syms[k] += coef
	}
	return out
}

// boundaries: offsets of the cell starts (and the end of the text).
func (d *strDom) boundaries(st *State) []linForm {
	cs := d.cells(st)
	out := make([]linForm, len(cs)+1)
	out[0] = lfConst(0)
	for i, c := range cs {
		out[i+1] = lfAdd(out[i], d.sizeOf(st, c), 1)
	}
	return out
}

// at resolves an offset to the index of the cell starting there (len(cells) for the end); empty stretches are skipped.
func (d *strDom) at(st *State, pos linForm) int {
	b := d.boundaries(st)
	idx := -1
	for j := range b {
		if lfEq(b[j], pos) {
			idx = j // the last boundary with this offset: cells of length 0 before it are skipped
		}
	}
	return idx
}

func (d *strDom) isText(v AV) bool {
	sy, ok := v.(avSym)
	if !ok {
		return false
	}
	if avKey(sy) == avKey(d.root) {
		return true
	}
	if sy.tag == "slice" {
		if t, ok := sy.payload.(avTuple); ok && len(t) == 3 {
			return d.isText(t[0])
		}
	}
	return false
}

// window: absolute offsets [lo, hi) of a piece of the text.
func (d *strDom) window(st *State, v AV) (lo, hi linForm, ok bool) {
	sy, isSym := v.(avSym)
	if !isSym {
		return
	}
	if avKey(sy) == avKey(d.root) {
		b := d.boundaries(st)
		return lfConst(0), b[len(b)-1], true
	}
	if sy.tag != "slice" {
		return
	}
	t, isT := sy.payload.(avTuple)
	if !isT || len(t) != 3 {
		return
	}
	xlo, xhi, xok := d.window(st, t[0])
	if !xok {
		return
	}
	a, b := d.lin(st, t[1]), d.lin(st, t[2])
	if hs, isS := t[2].(avSym); isS && hs.tag == "len" && hs.id == 0 && hs.payload != nil && avKey(hs.payload) == avKey(t[0]) {
		b = lfAdd(xhi, xlo, -1)
	}
	if !a.ok || !b.ok {
		return
	}
	return lfAdd(xlo, a, 1), lfAdd(xlo, b, 1), true
}

func (d *strDom) note(st *State, kind, msg string, pos token.Pos) {
	st.event(Event{Kind: kind, Note: msg, Pos: pos})
}

// assumeForm records form op 0 when the form has a single symbol; false when that is infeasible or cannot be recorded.
func (d *strDom) assumeForm(st *State, a linForm, op token.Token) bool {
	if len(a.syms) == 0 {
		switch op {
		case token.EQL:
			return a.c == 0
		case token.GEQ:
			return a.c >= 0
		}
		return false
	}
	if len(a.syms) != 1 {
		return false
	}
	for k, coef := range a.syms {
		sy, ok := d.syms[k]
		if !ok || (coef != 1 && coef != -1) {
			return false
		}
		// coef*s + c op 0
		switch {
		case coef == 1 && op == token.EQL:
			return st.assumeInt(st.idOf(sy), token.EQL, -a.c)
		case coef == 1 && op == token.GEQ:
			return st.assumeInt(st.idOf(sy), token.GEQ, -a.c)
		case coef == -1 && op == token.EQL:
			return st.assumeInt(st.idOf(sy), token.EQL, a.c)
		case coef == -1 && op == token.GEQ:
			return st.assumeInt(st.idOf(sy), token.LEQ, a.c)
		}
	}
	return false
}

// openAt makes sure a cell that can be read starts at index j: a stretch there is split into "empty" and "one byte and
// the rest". Each alternative is a state and the index of the readable cell (or len(cells) at the end of the text).
type cellAlt struct {
	st *State
	j  int
}

func (d *strDom) openAt(e *Engine, st *State, j int, depth int) []cellAlt {
	cs := d.cells(st)
	for j < len(cs) && cs[j].gap {
		if sz := d.sizeOf(st, cs[j]); len(sz.syms) == 0 && sz.c == 0 {
			j++
			continue
		}
		break
	}
	if j >= len(cs) || !cs[j].gap || depth > 4 {
		return []cellAlt{{st, j}}
	}
	g := cs[j]
	sz := d.sizeOf(st, g)
	var out []cellAlt
	// empty
	s0 := st.clone()
	if d.assumeForm(s0, sz, token.EQL) {
		out = append(out, d.openAt(e, s0, j+1, depth+1)...)
	}
	// one byte and the rest
	s1 := st.clone()
	if d.assumeForm(s1, lfAdd(sz, lfConst(1), -1), token.GEQ) {
		b := avSym{id: e.fresh(), tag: "byte:" + g.name}
		d.syms[avKey(b)] = b
		s1.assumeInt(b.id, token.GEQ, 0)
		s1.assumeInt(b.id, token.LEQ, 255)
		for _, x := range []byte(g.excl) {
			s1.assumeInt(b.id, token.NEQ, int64(x))
		}
		ncs := make([]scell, 0, len(cs)+1)
		ncs = append(ncs, cs[:j]...)
		ncs = append(ncs, scell{val: b, size: lfConst(1), excl: g.excl, name: g.name + "'", isByte: true})
		rest := g
		rest.size = lfAdd(g.size, lfConst(1), -1)
		ncs = append(ncs, rest)
		ncs = append(ncs, cs[j+1:]...)
		d.setCells(s1, ncs)
		out = append(out, cellAlt{s1, j})
	}
	if len(out) == 0 {
		d.note(st, "unsupported", "a stretch of text whose length is tied to others is read byte by byte", token.NoPos)
		return []cellAlt{{st, j}}
	}
	return out
}

// decodeAt: the code point starting at cell j and the offset after it. A byte outside ASCII followed by its continuation
// bytes is one character; any other byte outside ASCII cannot be decoded by this domain.
func (d *strDom) decodeAt(e *Engine, st *State, j int, pos token.Pos) (AV, linForm) {
	cs := d.cells(st)
	b := d.boundaries(st)
	c := cs[j]
	_, h, _ := st.intRange(c.val)
	if !c.isByte || h < 0x80 {
		return c.val, b[j+1]
	}
	if j+1 < len(cs) && cs[j+1].gap && cs[j+1].cont {
		r := avSym{id: e.fresh(), tag: "rune:" + c.name}
		d.syms[avKey(r)] = r
		st.assumeInt(r.id, token.GEQ, 0x80)
		st.assumeInt(r.id, token.LEQ, 0x10FFFF)
		return r, b[j+2]
	}
	d.note(st, "unsupported", "a code point is decoded from bytes that may belong to longer characters", pos)
	return c.val, b[j+1]
}

// byteOf: what reading the first byte of character cell c yields.
func (d *strDom) byteOf(e *Engine, st *State, c scell) AV {
	if !c.wide {
		return c.val
	}
	b := avSym{id: e.fresh(), tag: "lead:" + c.name}
	d.syms[avKey(b)] = b
	st.assumeInt(b.id, token.GEQ, 0x80)
	st.assumeInt(b.id, token.LEQ, 0xFF)
	return b
}

// ---------------------------------------------------------------- engine hooks

func (d *strDom) Load(e *Engine, st *State, p avPtr, t types.Type) AV {
	if strings.HasPrefix(p.o.label, "global:") {
		if t != nil && types.IsInterface(t) {
			return avSym{tag: p.o.label + p.path, nonNil: true, uniq: true}
		}
		return zeroAV(t)
	}
	v := avSym{id: e.fresh(), tag: "mem" + p.path}
	st.store(p, v)
	return v
}

func (d *strDom) Cmp(e *Engine, st *State, op token.Token, x, y AV) (AV, bool) {
	a, b := d.lin(st, x), d.lin(st, y)
	if !a.ok || !b.ok {
		return nil, false
	}
	df := lfAdd(a, b, -1)
	lo, hi, ok := d.bounds(st, df)
	if !ok {
		return nil, false
	}
	decided, res := false, false
	switch op {
	case token.EQL:
		if lo > 0 || hi < 0 {
			decided, res = true, false
		} else if lo == 0 && hi == 0 {
			decided, res = true, true
		}
	case token.NEQ:
		if lo > 0 || hi < 0 {
			decided, res = true, true
		} else if lo == 0 && hi == 0 {
			decided, res = true, false
		}
	case token.LSS:
		if hi < 0 {
			decided, res = true, true
		} else if lo >= 0 {
			decided, res = true, false
		}
	case token.LEQ:
		if hi <= 0 {
			decided, res = true, true
		} else if lo > 0 {
			decided, res = true, false
		}
	case token.GTR:
		if lo > 0 {
			decided, res = true, true
		} else if hi <= 0 {
			decided, res = true, false
		}
	case token.GEQ:
		if lo >= 0 {
			decided, res = true, true
		} else if hi < 0 {
			decided, res = true, false
		}
	}
	if decided {
		return avConst{constant.MakeBool(res)}, true
	}
	if len(df.syms) == 1 {
		for k, coef := range df.syms {
			sy := d.syms[k]
			switch coef {
			case 1:
				return avCmp{op, sy, avConst{constant.MakeInt64(-df.c)}}, true
			case -1:
				return avCmp{flipOp(op), sy, avConst{constant.MakeInt64(df.c)}}, true
			}
		}
	}
	return nil, false
}

func (d *strDom) Fork(e *Engine, st *State, in ssa.Instruction, ops []AV) ([]Alt, bool) {
	switch x := in.(type) {
	case *ssa.Index:
		if !d.isText(ops[0]) {
			return nil, false
		}
		lo, hi, ok := d.window(st, ops[0])
		idx := d.lin(st, ops[1])
		if !ok || !idx.ok {
			d.note(st, "unsupported", "a byte is read at a position that is not a linear form of the text's lengths", x.Pos())
			return []Alt{{st, avSym{id: e.fresh(), tag: "byte?"}}}, true
		}
		pos := lfAdd(lo, idx, 1)
		j := d.at(st, pos)
		if j < 0 {
			d.note(st, "misaligned", "a byte is read at "+lfKey(pos)+", which is not the start of a character the function has located", x.Pos())
			return []Alt{{st, avSym{id: e.fresh(), tag: "byte?"}}}, true
		}
		var out []Alt
		for _, a := range d.openAt(e, st, j, 0) {
			cs := d.cells(a.st)
			// inside the window?
			if mn, _, ok := d.bounds(a.st, lfAdd(hi, d.boundaries(a.st)[min(a.j, len(cs))], -1)); a.j >= len(cs) || !ok || mn <= 0 {
				d.note(a.st, "oob", "a byte is read at or beyond the end of the text it is read from (index out of range)", x.Pos())
				out = append(out, Alt{a.st, avSym{id: e.fresh(), tag: "byte?"}})
				continue
			}
			out = append(out, Alt{a.st, d.byteOf(e, a.st, cs[a.j])})
		}
		return out, true
	case *ssa.Slice:
		// only a check: the bounds lie within the piece of text that is cut
		if !d.isText(ops[0]) {
			return nil, false
		}
		lo, hi, ok := d.window(st, ops[0])
		if !ok {
			return nil, false
		}
		nlo, nhi := lo, hi
		if ops[1] != nil {
			nlo = lfAdd(lo, d.lin(st, ops[1]), 1)
		}
		if ops[2] != nil {
			nhi = lfAdd(lo, d.lin(st, ops[2]), 1)
		}
		for _, c := range []struct {
			f    linForm
			what string
		}{{lfAdd(nlo, lo, -1), "starts before the text it is cut from"}, {lfAdd(nhi, nlo, -1), "ends before it starts"}, {lfAdd(hi, nhi, -1), "ends beyond the text it is cut from"}} {
			if mn, _, ok := d.bounds(st, c.f); !ok || mn < 0 {
				if !d.pathSays(st, lfAdd(lfScale(c.f, -1), lfConst(1), -1)) { // not established: -f - 1 < 0, i.e. f >= 0
					d.note(st, "oob", "a piece of text "+c.what+" on some input (slice bounds out of range)", x.Pos())
				}
			}
		}
		return nil, false
	case *ssa.Next:
		it, ok := ops[0].(avSym)
		if !ok || it.tag != "range" || !d.isText(it.payload) {
			return nil, false
		}
		lo, hi, ok := d.window(st, it.payload)
		if !ok {
			d.note(st, "unsupported", "iteration over a piece of text whose bounds are not linear forms", x.Pos())
			return nil, false
		}
		key := fmt.Sprintf("#it[%d]", it.id)
		pos := lo
		if pv, found := st.load(avPtr{d.obj, key}); found {
			pos = pv.(linForm)
		}
		j := d.at(st, pos)
		if j < 0 {
			d.note(st, "misaligned", "iteration starts at "+lfKey(pos)+", which is not the start of a character", x.Pos())
			return nil, false
		}
		var out []Alt
		for _, a := range d.openAt(e, st, j, 0) {
			cs := d.cells(a.st)
			b := d.boundaries(a.st)
			if lfEq(b[min(a.j, len(cs))], hi) || a.j >= len(cs) {
				out = append(out, Alt{a.st, avTuple{avConst{constant.MakeBool(false)}, avConst{constant.MakeInt64(0)}, avConst{constant.MakeInt64(0)}}})
				continue
			}
			val, after := d.decodeAt(e, a.st, a.j, x.Pos())
			a.st.store(avPtr{d.obj, key}, after)
			out = append(out, Alt{a.st, avTuple{avConst{constant.MakeBool(true)}, d.lfAV(lfAdd(b[a.j], lo, -1)), val}})
		}
		return out, true
	}
	return nil, false
}

func constString(v AV) (string, bool) {
	if c, ok := v.(avConst); ok && c.v.Kind() == constant.String {
		return constant.StringVal(c.v), true
	}
	return "", false
}

// search: the offset, relative to lo, of the first character in [lo,hi) that is one of targets; -1 when there is none.
func (d *strDom) search(e *Engine, st *State, lo, hi linForm, targets []int64, pos token.Pos) []CallOut {
	j0, j1 := d.at(st, lo), d.at(st, hi)
	if j0 < 0 || j1 < 0 {
		d.note(st, "misaligned", "a search starts or ends inside a character or an unexamined stretch", pos)
		return []CallOut{{St: st, Res: []AV{avSym{id: e.fresh(), tag: "index?"}}}}
	}
	var outs []CallOut
	var walk func(st *State, j int)
	walk = func(st *State, j int) {
		cs := d.cells(st)
		b := d.boundaries(st)
		j1 := d.at(st, hi)
		for ; j < j1 && j < len(cs); j++ {
			c := cs[j]
			all := true
			for _, t := range targets {
				if t < 0 || t > 255 || !strings.ContainsRune(c.excl, rune(t)) {
					all = false
				}
			}
			if c.gap {
				if !all {
					d.note(st, "unsupported", "a byte is searched for in a stretch of text that may contain it", pos)
				}
				continue
			}
			if k, known := st.KnownInt(c.val); known {
				for _, t := range targets {
					if t == k {
						outs = append(outs, CallOut{St: st, Res: []AV{d.lfAV(lfAdd(b[j], lo, -1))}})
						return
					}
				}
				continue
			}
			if all {
				continue
			}
			l, h, _ := st.intRange(c.val)
			possible := false
			for _, t := range targets {
				if t >= l && t <= h && !st.Excluded(c.val)[t] {
					possible = true
					s2 := st.clone()
					if sy, ok := c.val.(avSym); ok && s2.assumeInt(s2.idOf(sy), token.EQL, t) {
						outs = append(outs, CallOut{St: s2, Res: []AV{d.lfAV(lfAdd(b[j], lo, -1))}})
					}
				}
			}
			if possible {
				if sy, ok := c.val.(avSym); ok {
					for _, t := range targets {
						if !st.assumeInt(st.idOf(sy), token.NEQ, t) {
							return
						}
					}
				}
			}
		}
		outs = append(outs, CallOut{St: st, Res: []AV{avConst{constant.MakeInt64(-1)}}})
	}
	walk(st, j0)
	return outs
}

// cellMay: can character cell c be byte t on this path? (definitely, possibly)
func (d *strDom) cellMay(st *State, c scell, t byte) (definitely, possibly bool) {
	if c.gap {
		return false, false
	}
	if k, known := st.KnownInt(c.val); known {
		return k == int64(t), k == int64(t)
	}
	if strings.ContainsRune(c.excl, rune(t)) || (c.wide && t < 0x80) {
		return false, false
	}
	l, h, _ := st.intRange(c.val)
	if int64(t) < l || int64(t) > h || st.Excluded(c.val)[int64(t)] {
		return false, false
	}
	return false, true
}

// searchSeq models strings.Index(text[lo:hi], needle) for a constant needle of several bytes: the first cell at which
// the needle's bytes stand one after the other. Cells that may or may not be a byte of the needle fork the path.
func (d *strDom) searchSeq(e *Engine, st *State, lo, hi linForm, needle string, pos token.Pos) []CallOut {
	j0 := d.at(st, lo)
	if j0 < 0 || d.at(st, hi) < 0 {
		d.note(st, "misaligned", "a search starts or ends inside a character or an unexamined stretch", pos)
		return []CallOut{{St: st, Res: []AV{avSym{id: e.fresh(), tag: "index?"}}}}
	}
	var outs []CallOut
	var walk func(st *State, j int, depth int)
	// rest: do needle[k:] stand at cell j onwards? calls yes/no with the state of each alternative
	var rest func(st *State, j, k int, yes, no func(*State))
	rest = func(st *State, j, k int, yes, no func(*State)) {
		if k == len(needle) {
			yes(st)
			return
		}
		for _, o := range d.openAt(e, st, j, 0) {
			cs := d.cells(o.st)
			if j1 := d.at(o.st, hi); o.j >= j1 || o.j >= len(cs) {
				no(o.st)
				continue
			}
			c := cs[o.j]
			def, may := d.cellMay(o.st, c, needle[k])
			switch {
			case def:
				rest(o.st, o.j+1, k+1, yes, no)
			case may:
				sy, _ := c.val.(avSym)
				s2 := o.st.clone()
				if s2.assumeInt(s2.idOf(sy), token.EQL, int64(needle[k])) {
					rest(s2, o.j+1, k+1, yes, no)
				}
				if o.st.assumeInt(o.st.idOf(sy), token.NEQ, int64(needle[k])) {
					no(o.st)
				}
			default:
				no(o.st)
			}
		}
	}
	walk = func(st *State, j int, depth int) {
		if depth > 12 {
			d.note(st, "unsupported", "a search for a sequence of bytes goes on beyond the bound of the interpretation", pos)
			return
		}
		cs := d.cells(st)
		j1 := d.at(st, hi)
		for ; j < j1 && j < len(cs); j++ {
			c := cs[j]
			if c.gap {
				if !strings.ContainsRune(c.excl, rune(needle[0])) {
					d.note(st, "unsupported", "a sequence of bytes is searched for in a stretch of text that may contain its first byte", pos)
				}
				continue
			}
			def, may := d.cellMay(st, c, needle[0])
			if !def && !may {
				continue
			}
			if !def {
				sy, _ := c.val.(avSym)
				s2 := st.clone()
				if s2.assumeInt(s2.idOf(sy), token.NEQ, int64(needle[0])) {
					walk(s2, j+1, depth+1)
				}
				if !st.assumeInt(st.idOf(sy), token.EQL, int64(needle[0])) {
					return
				}
			}
			jj := j
			rest(st, j+1, 1, func(s *State) {
				b := d.boundaries(s)
				outs = append(outs, CallOut{St: s, Res: []AV{d.lfAV(lfAdd(b[jj], lo, -1))}})
			}, func(s *State) {
				walk(s, jj+1, depth+1)
			})
			return
		}
		outs = append(outs, CallOut{St: st, Res: []AV{avConst{constant.MakeInt64(-1)}}})
	}
	walk(st, j0, 0)
	return outs
}

func (d *strDom) builderKey(v AV) string { return avKey(v) }

func (d *strDom) Call(e *Engine, st *State, site ssa.CallInstruction, callee *ssa.Function, args []AV, depth int) ([]CallOut, bool) {
	if callee == nil {
		return nil, false
	}
	name := callee.String()
	one := func(v AV) ([]CallOut, bool) { return []CallOut{{St: st, Res: []AV{v}}}, true }
	switch name {
	case "strings.IndexByte", "strings.IndexRune", "strings.Index", "strings.IndexAny", "strings.ContainsRune", "strings.Contains", "strings.ContainsAny":
		if !d.isText(args[0]) {
			return nil, false
		}
		lo, hi, ok := d.window(st, args[0])
		if !ok {
			break
		}
		var targets []int64
		if k, known := st.KnownInt(args[1]); known {
			targets = []int64{k}
		} else if s, isS := constString(args[1]); isS {
			if strings.HasSuffix(name, "Any") {
				for _, b := range []byte(s) {
					targets = append(targets, int64(b))
				}
			} else if len(s) == 1 {
				targets = []int64{int64(s[0])}
			} else if len(s) > 1 && len(s) <= 4 && (name == "strings.Index" || name == "strings.Contains") {
				outs := d.searchSeq(e, st, lo, hi, s, site.Pos())
				if name == "strings.Contains" {
					for i := range outs {
						k, known := outs[i].St.KnownInt(outs[i].Res[0])
						outs[i].Res = []AV{avConst{constant.MakeBool(!known || k >= 0)}}
					}
				}
				return outs, true
			}
		}
		if len(targets) == 0 {
			break
		}
		outs := d.search(e, st, lo, hi, targets, site.Pos())
		if strings.HasPrefix(name, "strings.Contains") {
			for i := range outs {
				k, known := outs[i].St.KnownInt(outs[i].Res[0])
				outs[i].Res = []AV{avConst{constant.MakeBool(!known || k >= 0)}}
			}
		}
		return outs, true
	case "strings.HasPrefix":
		if !d.isText(args[0]) {
			return nil, false
		}
		pre, isConst := constString(args[1])
		lo, hi, ok := d.window(st, args[0])
		if !isConst || !ok {
			break
		}
		j := d.at(st, lo)
		if j < 0 || d.at(st, hi) < 0 {
			d.note(st, "misaligned", "a prefix is tested at a position that is not the start of a character", site.Pos())
			break
		}
		type palt struct {
			st *State
			j  int
		}
		cur := []palt{{st, j}}
		var outs []CallOut
		no := func(s *State) { outs = append(outs, CallOut{St: s, Res: []AV{avConst{constant.MakeBool(false)}}}) }
		for k := 0; k < len(pre); k++ {
			var next []palt
			for _, a := range cur {
				for _, o := range d.openAt(e, a.st, a.j, 0) {
					cs := d.cells(o.st)
					if j1 := d.at(o.st, hi); o.j >= j1 || o.j >= len(cs) {
						no(o.st)
						continue
					}
					c := cs[o.j]
					if v, known := o.st.KnownInt(c.val); known {
						if v == int64(pre[k]) {
							next = append(next, palt{o.st, o.j + 1})
						} else {
							no(o.st)
						}
						continue
					}
					sy, isSym := c.val.(avSym)
					if !isSym {
						no(o.st)
						continue
					}
					eq := o.st.clone()
					if eq.assumeInt(eq.idOf(sy), token.EQL, int64(pre[k])) {
						next = append(next, palt{eq, o.j + 1})
					}
					if o.st.assumeInt(o.st.idOf(sy), token.NEQ, int64(pre[k])) {
						no(o.st)
					}
				}
			}
			cur = next
		}
		for _, a := range cur {
			outs = append(outs, CallOut{St: a.st, Res: []AV{avConst{constant.MakeBool(true)}}})
		}
		return outs, true
	case "unicode/utf8.DecodeRuneInString":
		if !d.isText(args[0]) {
			return nil, false
		}
		lo, hi, ok := d.window(st, args[0])
		j := -1
		if ok {
			j = d.at(st, lo)
		}
		if j < 0 {
			d.note(st, "misaligned", "a character is decoded at a position that is not the start of one", site.Pos())
			break
		}
		var outs []CallOut
		for _, a := range d.openAt(e, st, j, 0) {
			cs := d.cells(a.st)
			b := d.boundaries(a.st)
			if a.j >= len(cs) || lfEq(b[a.j], hi) {
				outs = append(outs, CallOut{St: a.st, Res: []AV{avConst{constant.MakeInt64(0xFFFD)}, avConst{constant.MakeInt64(0)}}})
				continue
			}
			val, after := d.decodeAt(e, a.st, a.j, site.Pos())
			outs = append(outs, CallOut{St: a.st, Res: []AV{val, d.lfAV(lfAdd(after, b[a.j], -1))}})
		}
		return outs, true
	case "unicode/utf16.IsSurrogate":
		return one(avSym{tag: "utf16.IsSurrogate", payload: args[0]})
	case "strconv.ParseUint":
		// digits of a constant base other than 0 (no sign, no prefix, no underscore is accepted then): on a window made
		// of character cells each confined to one class of hexadecimal digits the value is a linear form of the cells
		if len(args) == 3 && d.isText(args[0]) {
			base, okb := st.KnownInt(args[1])
			lo, hi, okw := d.window(st, args[0])
			if okb && okw && (base == 16 || base == 10) {
				j0, j1 := d.at(st, lo), d.at(st, hi)
				cs := d.cells(st)
				if j0 >= 0 && j1 < 0 {
					// the window ends inside a character: a character outside ASCII stands in it, which is no digit
					bnd := d.boundaries(st)
					for j := j0; j < len(cs); j++ {
						if l, _, ok := d.bounds(st, lfAdd(bnd[j], hi, -1)); ok && l >= 0 {
							break
						}
						if cs[j].wide || cs[j].cont {
							return []CallOut{{St: st, Res: []AV{avConst{constant.MakeInt64(0)}, avSym{id: e.fresh(), tag: "strconv-err", nonNil: true}}}}, true
						}
					}
				}
				if j0 >= 0 && j1 >= j0 && j1 <= len(cs) {
					var val AV = avConst{constant.MakeInt64(0)}
					good, decided := j1 > j0, true
					for j := j0; j < j1; j++ {
						c := cs[j]
						if c.gap {
							decided = false
							break
						}
						if c.wide {
							good = false
							continue
						}
						l, h, _ := st.intRange(c.val)
						var k int64 = -1
						switch {
						case l >= '0' && h <= '9':
							k = '0'
						case base == 16 && l >= 'a' && h <= 'f':
							k = 'a' - 10
						case base == 16 && l >= 'A' && h <= 'F':
							k = 'A' - 10
						}
						if k < 0 {
							// not within one class: outside all of them?
							outside := true
							for _, cl := range hexClasses {
								if base == 10 && cl.lo != '0' {
									continue
								}
								for b := int64(cl.lo); b <= int64(cl.hi); b++ {
									if b >= l && b <= h && !st.Excluded(c.val)[b] && !strings.ContainsRune(c.excl, rune(b)) {
										outside = false
									}
								}
							}
							if !outside {
								decided = false
								break
							}
							good = false
							continue
						}
						val = avBin{token.ADD, avBin{token.MUL, avConst{constant.MakeInt64(base)}, val}, avBin{token.SUB, c.val, avConst{constant.MakeInt64(k)}}}
					}
					if decided {
						if good {
							return []CallOut{{St: st, Res: []AV{val, avNil{}}}}, true
						}
						return []CallOut{{St: st, Res: []AV{avConst{constant.MakeInt64(0)}, avSym{id: e.fresh(), tag: "strconv-err", nonNil: true}}}}, true
					}
					d.note(st, "unsupported", "strconv.ParseUint is applied to text whose characters the path has not confined to digits or non-digits", site.Pos())
				}
			}
		}
	case "unicode/utf16.DecodeRune":
		return one(avSym{tag: "utf16.DecodeRune", payload: avTuple{args[0], args[1]}})
	case "(*strings.Builder).Grow", "(*strings.Builder).Reset":
		return []CallOut{{St: st}}, true
	case "(*strings.Builder).Len":
		return one(avSym{id: e.fresh(), tag: "builder-len"})
	case "(*strings.Builder).WriteByte", "(*strings.Builder).WriteRune":
		it := d.charItem(st, args[1])
		if name == "(*strings.Builder).WriteRune" && it.kind == "range" {
			// a single byte of the text written as a rune: the byte itself only when the path pins it to ASCII; the lead
			// or continuation byte of a longer character is re-encoded as the Latin-1 character of the same number
			if _, hi, _ := st.intRange(args[1]); hi >= 0x80 {
				for _, c := range d.cells(st) {
					if !c.gap && avKey(c.val) == avKey(args[1]) && (c.isByte || c.wide) {
						it = sitem{kind: "rune", v: avSym{tag: "reencoded-byte", payload: args[1]}}
					}
				}
			}
		}
		d.addItem(st, d.builderKey(args[0]), it)
		if name == "(*strings.Builder).WriteByte" {
			return one(avNil{})
		}
		return []CallOut{{St: st, Res: []AV{avSym{id: e.fresh(), tag: "n"}, avNil{}}}}, true
	case "(*strings.Builder).WriteString":
		d.addItem(st, d.builderKey(args[0]), d.textItem(st, args[1]))
		return []CallOut{{St: st, Res: []AV{avSym{id: e.fresh(), tag: "n"}, avNil{}}}}, true
	case "(*strings.Builder).String":
		return one(avSym{id: e.fresh(), tag: "built", payload: avConst{constant.MakeString(d.builderKey(args[0]))}})
	case "strings.ReplaceAll":
		if !d.isText(args[0]) {
			return nil, false
		}
		o, ok1 := constString(args[1])
		n, ok2 := constString(args[2])
		if !ok1 || !ok2 {
			break
		}
		return one(d.replace(e, st, args[0], [][2]string{{o, n}}, site.Pos()))
	case "strings.NewReplacer":
		var pairs avTuple
		if sl, ok := args[0].(avSlice); ok && sl.n >= 0 {
			for i := 0; i < sl.n; i++ {
				v, _ := st.load(avPtr{sl.o, fmt.Sprintf("%s[%d]", sl.path, i)})
				pairs = append(pairs, v)
			}
		}
		return one(avSym{id: e.fresh(), tag: "replacer", nonNil: true, payload: pairs})
	case "(*strings.Replacer).Replace":
		rp, ok := args[0].(avSym)
		if !ok || !d.isText(args[1]) {
			break
		}
		t, _ := rp.payload.(avTuple)
		if rp.tag == "init:NewReplacer" && len(t) == 1 {
			// built by the package initialiser: its one (variadic) argument
			var pairs avTuple
			if sl, ok := t[0].(avSlice); ok && sl.n >= 0 {
				for i := 0; i < sl.n; i++ {
					v, _ := st.load(avPtr{sl.o, fmt.Sprintf("%s[%d]", sl.path, i)})
					pairs = append(pairs, v)
				}
			}
			t = pairs
		} else if rp.tag != "replacer" {
			break
		}
		var pairs [][2]string
		for i := 0; i+1 < len(t); i += 2 {
			o, ok1 := constString(t[i])
			n, ok2 := constString(t[i+1])
			if !ok1 || !ok2 {
				pairs = nil
				break
			}
			pairs = append(pairs, [2]string{o, n})
		}
		if pairs == nil {
			break
		}
		return one(d.replace(e, st, args[1], pairs, site.Pos()))
	}
	if d.p.IsRepo(callee) {
		return nil, false
	}
	if strings.HasPrefix(name, "strings.") || strings.HasPrefix(name, "unicode/utf8.") || strings.HasPrefix(name, "(*strings.") {
		for _, a := range args {
			if d.isText(a) {
				d.note(st, "unsupported", "the text is handed to "+name+", which the text domain does not model", site.Pos())
			}
		}
	}
	return nil, false
}

// replace applies a replacer (pairs tried in order at each position, replaced text not rescanned) to a piece of text
// whose relevant characters are known.
func (d *strDom) replace(e *Engine, st *State, text AV, pairs [][2]string, pos token.Pos) AV {
	lo, hi, ok := d.window(st, text)
	key := fmt.Sprintf("repl%d", e.fresh())
	res := avSym{id: e.fresh(), tag: "built", payload: avConst{constant.MakeString(key)}}
	if !ok {
		d.note(st, "unsupported", "replacement in a piece of text whose bounds are not linear forms", pos)
		return res
	}
	j, j1 := d.at(st, lo), d.at(st, hi)
	if j < 0 || j1 < 0 {
		d.note(st, "misaligned", "replacement in a piece of text that does not start and end at characters", pos)
		return res
	}
	cs := d.cells(st)
	b := d.boundaries(st)
	firsts := ""
	for _, pr := range pairs {
		if pr[0] == "" {
			d.note(st, "unsupported", "a replacer with an empty pattern", pos)
			return res
		}
		firsts += pr[0][:1]
	}
	flushFrom := -1
	flush := func(upto int) {
		if flushFrom >= 0 && upto > flushFrom {
			d.addItem(st, key, sitem{kind: "range", lo: b[flushFrom], hi: b[upto]})
		}
		flushFrom = -1
	}
	for j < j1 {
		c := cs[j]
		if c.gap {
			for _, f := range []byte(firsts) {
				if !strings.ContainsRune(c.excl, rune(f)) {
					d.note(st, "unsupported", "a replacer is applied to a stretch of text that may contain its patterns", pos)
				}
			}
			if flushFrom < 0 {
				flushFrom = j
			}
			j++
			continue
		}
		matched := false
		for _, pr := range pairs {
			m := true
			for k := 0; k < len(pr[0]); k++ {
				if j+k >= j1 || cs[j+k].gap {
					m = false
					break
				}
				v, known := st.KnownInt(cs[j+k].val)
				if !known {
					// decided when the pattern byte is excluded
					l, h, _ := st.intRange(cs[j+k].val)
					if strings.ContainsRune(cs[j+k].excl, rune(pr[0][k])) || st.Excluded(cs[j+k].val)[int64(pr[0][k])] || int64(pr[0][k]) < l || int64(pr[0][k]) > h {
						m = false
						break
					}
					d.note(st, "unsupported", "a replacer is applied where the path does not decide whether its pattern matches", pos)
					m = false
					break
				}
				if v != int64(pr[0][k]) {
					m = false
					break
				}
			}
			if m {
				flush(j)
				d.addItem(st, key, sitem{kind: "const", s: pr[1]})
				j += len(pr[0])
				matched = true
				break
			}
		}
		if !matched {
			if flushFrom < 0 {
				flushFrom = j
			}
			j++
		}
	}
	flush(j1)
	return res
}

// charItem: what writing the single character v contributes.
func (d *strDom) charItem(st *State, v AV) sitem {
	if k, ok := st.KnownInt(v); ok {
		return sitem{kind: "const", s: string(rune(k))}
	}
	b := d.boundaries(st)
	for j, c := range d.cells(st) {
		if !c.gap && avKey(c.val) == avKey(v) {
			return sitem{kind: "range", lo: b[j], hi: b[j+1]}
		}
	}
	if sy, ok := v.(avSym); ok && sy.tag == "utf16.DecodeRune" {
		if t, ok := sy.payload.(avTuple); ok && len(t) == 2 {
			return sitem{kind: "decode", v: t[0], w: t[1]}
		}
	}
	return sitem{kind: "rune", v: v}
}

func (d *strDom) textItem(st *State, v AV) sitem {
	if s, ok := constString(v); ok {
		return sitem{kind: "const", s: s}
	}
	if d.isText(v) {
		if lo, hi, ok := d.window(st, v); ok {
			return sitem{kind: "range", lo: lo, hi: hi}
		}
	}
	return sitem{kind: "unknown", v: v}
}

// resultItems: the pieces a returned string value consists of.
func (d *strDom) resultItems(st *State, v AV) []sitem {
	if iv, ok := v.(avIface); ok {
		if f := st.fieldsOf(iv); f != nil {
			if val, ok := f["Value"]; ok {
				return d.resultItems(st, val)
			}
		}
		return []sitem{{kind: "unknown", v: v}}
	}
	if sy, ok := v.(avSym); ok && sy.tag == "built" {
		if k, ok := constString(sy.payload); ok {
			return d.items(st, k)
		}
	}
	if sv, ok := v.(avStruct); ok {
		if val, ok := sv.f["Value"]; ok {
			return d.resultItems(st, val)
		}
	}
	return []sitem{d.textItem(st, v)}
}
