package main

import (
	"encoding/json"
	"fmt"
	"os"
	"os/exec"
	"path/filepath"
	"sort"
	"strings"
	"sync"
)

// Mutant is a small textual edit of the current repository that must make a rule fire
// (Expect "fire") or must leave it silent (Expect "silent": a behaviour-preserving edit).
// It is applied as an in-memory overlay; /repo is never written.
type Mutant struct {
	ID      string   `json:"id"`
	Rule    string   `json:"rule"`
	Props   []string `json:"props,omitempty"`
	File    string   `json:"file"`
	Find    string   `json:"find"`
	Replace string   `json:"replace"`
	Nth     int      `json:"nth,omitempty"` // which occurrence (1-based); 0 = must be unique
	Expect  string   `json:"expect"`
	Quick   bool     `json:"quick,omitempty"`
	Why     string   `json:"why,omitempty"`
	// Patch names a unified diff (relative to the verification directory) applied instead of Find/Replace.
	Patch string `json:"patch,omitempty"`
}

type selfTestResult struct {
	Total    int      `json:"total"`
	AsExpect int      `json:"as_expected"`
	Skipped  []string `json:"skipped,omitempty"`
	Missed   []string `json:"missed,omitempty"`
	Noisy    []string `json:"noisy,omitempty"`
	Passed   []string `json:"passed,omitempty"`
	Pairs    []string `json:"pairs,omitempty"` // thorough tier: (defective, repaired) pairs of this property
	Note     string   `json:"note"`
}

func loadMutants(verif string) ([]Mutant, error) {
	b, err := os.ReadFile(filepath.Join(verif, "selftest", "mutants.json"))
	if err != nil {
		if os.IsNotExist(err) {
			return nil, nil
		}
		return nil, err
	}
	var ms []Mutant
	if err := json.Unmarshal(b, &ms); err != nil {
		return nil, err
	}
	return ms, nil
}

// applyPatch applies a unified diff to copies of the files it names and returns them as an overlay.
func applyPatch(repo, patchFile string) (map[string][]byte, string) {
	diff, err := os.ReadFile(patchFile)
	if err != nil {
		return nil, "cannot read patch"
	}
	var files []string
	for _, l := range strings.Split(string(diff), "\n") {
		if strings.HasPrefix(l, "+++ b/") {
			files = append(files, strings.TrimPrefix(l, "+++ b/"))
		}
		if strings.HasPrefix(l, "--- a/") {
			f := strings.TrimPrefix(l, "--- a/")
			dup := false
			for _, g := range files {
				dup = dup || g == f
			}
			if !dup {
				files = append(files, f) // deleted (or renamed) by the patch
			}
		}
	}
	if len(files) == 0 {
		return nil, "patch names no files"
	}
	tmp, err := os.MkdirTemp("", "jmescheck-mutant-")
	if err != nil {
		return nil, "cannot create a scratch directory"
	}
	defer os.RemoveAll(tmp)
	for _, f := range files {
		src, err := os.ReadFile(filepath.Join(repo, f))
		if err != nil {
			continue // file added by the patch
		}
		os.MkdirAll(filepath.Dir(filepath.Join(tmp, f)), 0o755)
		os.WriteFile(filepath.Join(tmp, f), src, 0o644)
	}
	cmd := exec.Command("git", "apply", "--whitespace=nowarn", patchFile)
	cmd.Dir = tmp
	cmd.Env = append(os.Environ(), "GIT_CEILING_DIRECTORIES="+filepath.Dir(tmp), "GIT_DIR=/nonexistent")
	if out, err := cmd.CombinedOutput(); err != nil {
		return nil, "patch does not apply to the current tree: " + firstLine(string(out))
	}
	ov := map[string][]byte{}
	seen := map[string]bool{}
	for _, f := range files {
		if seen[f] {
			continue
		}
		seen[f] = true
		b, err := os.ReadFile(filepath.Join(tmp, f))
		if err != nil {
			// deleted by the patch: an overlay cannot remove a file, an empty file of the same package is equivalent
			if src, err2 := os.ReadFile(filepath.Join(repo, f)); err2 == nil && strings.HasSuffix(f, ".go") {
				pkg := ""
				for _, l := range strings.Split(string(src), "\n") {
					if strings.HasPrefix(l, "package ") {
						pkg = strings.Fields(l)[1]
						break
					}
				}
				if pkg != "" {
					ov[filepath.Join(repo, f)] = []byte("package " + pkg + "\n")
				}
			}
			continue
		}
		ov[filepath.Join(repo, f)] = b
	}
	return ov, ""
}

func applyMutant(repo string, m Mutant) (map[string][]byte, string) {
	path := filepath.Join(repo, m.File)
	src, err := os.ReadFile(path)
	if err != nil {
		return nil, "cannot read " + m.File
	}
	s := string(src)
	c := strings.Count(s, m.Find)
	if m.Nth == 0 {
		if c != 1 {
			return nil, fmt.Sprintf("pattern matches %d times (needs exactly 1)", c)
		}
		s = strings.Replace(s, m.Find, m.Replace, 1)
	} else {
		if c < m.Nth {
			return nil, fmt.Sprintf("pattern matches %d times (needs >= %d)", c, m.Nth)
		}
		idx := -1
		from := 0
		for i := 0; i < m.Nth; i++ {
			j := strings.Index(s[from:], m.Find)
			idx = from + j
			from = idx + len(m.Find)
		}
		s = s[:idx] + m.Replace + s[idx+len(m.Find):]
	}
	return map[string][]byte{path: []byte(s)}, ""
}

// runSelfTest validates the rules of this property against the mutant corpus. Its outcome is
// recorded in the evidence and printed; it never produces a VIOLATION line, because a miss says
// something about the checker, not about /repo.
func runSelfTest(repo, verif, prop, tier string, rules []*Rule, base []Obligation) *selfTestResult {
	ms, err := loadMutants(verif)
	res := &selfTestResult{Note: "mutants are in-memory overlays of the current /repo; 'fire' mutants must add a non-discharged obligation of their rule, 'silent' mutants (behaviour-preserving edits) must add none"}
	if err != nil {
		res.Note = "mutants.json unreadable: " + err.Error()
		return res
	}
	inProp := map[string]bool{}
	for _, r := range rules {
		inProp[r.ID] = true
	}
	baseBad := map[string]bool{}
	for _, o := range base {
		if o.Status != Discharged {
			baseBad[o.Rule+"\x00"+o.Key] = true
		}
	}
	// independently written breaking changes kept under seeded/: each must make at least one rule of its property fire
	if dirs, err := filepath.Glob(filepath.Join(verif, "seeded", "*", "meta.json")); err == nil {
		sort.Strings(dirs)
		for _, mf := range dirs {
			b, err := os.ReadFile(mf)
			if err != nil {
				continue
			}
			var meta struct {
				Property string `json:"property"`
			}
			if json.Unmarshal(b, &meta) != nil || meta.Property != prop {
				continue
			}
			d := filepath.Dir(mf)
			ms = append(ms, Mutant{ID: "seeded/" + filepath.Base(d), Rule: "*", Props: []string{prop}, Patch: filepath.Join(d, "patch.diff"), Expect: "fire", Quick: true})
		}
	}
	// behaviour-preserving refactorings kept under neutral/: no rule of any property may fire on them (thorough tier)
	if dirs, err := filepath.Glob(filepath.Join(verif, "neutral", "*", "patch.diff")); err == nil {
		sort.Strings(dirs)
		for _, pf := range dirs {
			ms = append(ms, Mutant{ID: "neutral/" + filepath.Base(filepath.Dir(pf)), Rule: "*", Patch: pf, Expect: "silent", Quick: false})
		}
	}
	var sel []Mutant
	for _, m := range ms {
		if m.Rule != "*" && !inProp[m.Rule] {
			continue
		}
		if len(m.Props) > 0 {
			ok := false
			for _, p := range m.Props {
				if p == prop {
					ok = true
				}
			}
			if !ok {
				continue
			}
		}
		if tier == "quick" && !m.Quick {
			continue
		}
		sel = append(sel, m)
	}
	type out struct {
		id, verdict, detail string
	}
	outs := make([]out, len(sel))
	sem := make(chan struct{}, 6)
	var wg sync.WaitGroup
	for i, m := range sel {
		wg.Add(1)
		go func(i int, m Mutant) {
			defer wg.Done()
			sem <- struct{}{}
			defer func() { <-sem }()
			var ov map[string][]byte
			var why string
			if m.Patch != "" {
				pf := m.Patch
				if !filepath.IsAbs(pf) {
					pf = filepath.Join(verif, pf)
				}
				ov, why = applyPatch(repo, pf)
			} else {
				ov, why = applyMutant(repo, m)
			}
			if ov == nil {
				outs[i] = out{m.ID, "skipped", why}
				return
			}
			run := rules
			if m.Rule != "*" {
				rule := ruleByID(m.Rule)
				if rule == nil {
					outs[i] = out{m.ID, "skipped", "unknown rule " + m.Rule}
					return
				}
				run = []*Rule{rule}
			}
			r, err := analyse(repo, run, LoadOpts{Overlay: ov})
			if err != nil {
				outs[i] = out{m.ID, "skipped", "mutant does not load: " + firstLine(err.Error())}
				return
			}
			var fresh []string
			panicked := ""
			for _, o := range r.Obs {
				if o.Status != Discharged && !baseBad[o.Rule+"\x00"+o.Key] {
					if strings.HasPrefix(o.Key, "rule-panic") {
						panicked = o.Rule + ": " + o.Detail
						continue
					}
					fresh = append(fresh, o.Key)
				}
			}
			switch {
			case panicked != "" && len(fresh) == 0:
				// a crash of the checker is not a detection (and not silence either)
				outs[i] = out{m.ID, "skipped", "CHECKER PANIC " + panicked}
			case m.Expect == "fire" && len(fresh) > 0:
				outs[i] = out{m.ID, "ok", "fired: " + freshRule(r.Obs, baseBad) + " " + fresh[0]}
			case m.Expect == "fire":
				outs[i] = out{m.ID, "missed", "rule " + m.Rule + " stayed silent"}
			case len(fresh) == 0:
				outs[i] = out{m.ID, "ok", "silent"}
			default:
				outs[i] = out{m.ID, "noisy", "rule " + m.Rule + " fired on a neutral edit: " + fresh[0]}
			}
		}(i, m)
	}
	wg.Wait()
	for _, o := range outs {
		res.Total++
		switch o.verdict {
		case "ok":
			res.AsExpect++
			res.Passed = append(res.Passed, o.id+": "+o.detail)
		case "skipped":
			res.Skipped = append(res.Skipped, o.id+": "+o.detail)
		case "missed":
			res.Missed = append(res.Missed, o.id+": "+o.detail)
		case "noisy":
			res.Noisy = append(res.Noisy, o.id+": "+o.detail)
		}
	}
	sort.Strings(res.Passed)
	if tier != "quick" {
		res.Pairs = runPairs(repo, verif, prop, rules, baseBad)
	}
	fmt.Printf("selftest property=%s mutants=%d as_expected=%d missed=%d noisy=%d skipped=%d\n", prop, res.Total, res.AsExpect, len(res.Missed), len(res.Noisy), len(res.Skipped))
	for _, s := range res.Missed {
		fmt.Println("  SELFTEST-MISS", s)
	}
	for _, s := range res.Noisy {
		fmt.Println("  SELFTEST-NOISY", s)
	}
	for _, s := range res.Skipped {
		fmt.Println("  selftest-skip", s)
	}
	return res
}

// runPairs: for every (defective, repaired) pair of this property kept under pairs/, the obligations of the property's
// rules that are not discharged with the defective member applied, with the repaired member applied, and whether some
// obligation tells the two apart (the alarm is about the defect, not only about the restructuring around it).
func runPairs(repo, verif, prop string, rules []*Rule, baseBad map[string]bool) []string {
	dirs, _ := filepath.Glob(filepath.Join(verif, "pairs", prop+"-*"))
	sort.Strings(dirs)
	fired := func(patch string) (map[string]bool, string) {
		ov, why := applyPatch(repo, patch)
		if ov == nil {
			return nil, why
		}
		r, err := analyse(repo, rules, LoadOpts{Overlay: ov})
		if err != nil {
			return nil, "does not load: " + firstLine(err.Error())
		}
		out := map[string]bool{}
		for _, o := range r.Obs {
			if o.Status != Discharged && !baseBad[o.Rule+"\x00"+o.Key] {
				out[o.Rule+" "+o.Key] = true
			}
		}
		return out, ""
	}
	var lines []string
	disc, same, quiet := 0, 0, 0
	for _, d := range dirs {
		fm, w1 := fired(filepath.Join(d, "defect.diff"))
		ff, w2 := fired(filepath.Join(d, "repaired.diff"))
		id := filepath.Base(d)
		if fm == nil || ff == nil {
			lines = append(lines, id+": skipped ("+w1+w2+")")
			continue
		}
		var only []string
		for k := range fm {
			if !ff[k] {
				only = append(only, k)
			}
		}
		sort.Strings(only)
		if len(ff) == 0 {
			quiet++
		}
		switch {
		case len(only) > 0:
			disc++
			lines = append(lines, fmt.Sprintf("%s: discriminates (%d obligations fire on the defective member only, e.g. %s); repaired member: %d not discharged", id, len(only), only[0], len(ff)))
		case len(fm) == 0:
			lines = append(lines, id+": silent on both members")
		default:
			same++
			lines = append(lines, fmt.Sprintf("%s: the same %d obligations fire on both members (the alarm is about the restructuring)", id, len(fm)))
		}
	}
	if len(dirs) > 0 {
		fmt.Printf("selftest-pairs property=%s pairs=%d discriminated=%d same_alarms=%d repaired_silent=%d\n", prop, len(dirs), disc, same, quiet)
	}
	return lines
}

func firstLine(s string) string {
	if i := strings.IndexByte(s, '\n'); i >= 0 {
		s = s[:i]
	}
	if len(s) > 300 {
		s = s[:300]
	}
	return s
}

func freshRule(obs []Obligation, baseBad map[string]bool) string {
	for _, o := range obs {
		if o.Status != Discharged && !baseBad[o.Rule+"\x00"+o.Key] {
			return o.Rule
		}
	}
	return ""
}
