package main

import (
	"go/token"
	"go/types"
	"strings"

	"golang.org/x/tools/go/ssa"
)

// calleeOf returns the statically resolved callee of a call instruction (nil for dynamic calls),
// mapping generic instantiations back to their origin.
func calleeOf(c *ssa.CallCommon) *ssa.Function {
	f := c.StaticCallee()
	if f == nil {
		return nil
	}
	if o := f.Origin(); o != nil {
		return o
	}
	return f
}

// calleeFullName gives e.g. "slices.Clone", "(*strings.Builder).WriteString", "sort.Stable".
func calleeFullName(c *ssa.CallCommon) string {
	if c.IsInvoke() {
		return "(" + c.Value.Type().String() + ")." + c.Method.Name()
	}
	f := calleeOf(c)
	if f == nil {
		return ""
	}
	s := f.String()
	if i := strings.Index(s, "["); i > 0 && !strings.HasPrefix(s, "(") {
		s = s[:i]
	}
	return s
}

func builtinName(c *ssa.CallCommon) string {
	if b, ok := c.Value.(*ssa.Builtin); ok {
		return b.Name()
	}
	return ""
}

func isNilConst(v ssa.Value) bool {
	c, ok := v.(*ssa.Const)
	return ok && c.Value == nil && c.IsNil()
}

// edgeCond returns the condition value and its truth on the edge from b to its successor index i.
func edgeCond(b *ssa.BasicBlock, i int) (ssa.Value, bool, bool) {
	if len(b.Instrs) == 0 {
		return nil, false, false
	}
	iff, ok := b.Instrs[len(b.Instrs)-1].(*ssa.If)
	if !ok || len(b.Succs) != 2 || b.Succs[0] == b.Succs[1] {
		return nil, false, false
	}
	return iff.Cond, i == 0, true
}

type condFact struct {
	Cond  ssa.Value
	Truth bool
}

// blockFacts lists the branch conditions known to hold throughout block b: for every block c on the
// dominator chain of b with a single predecessor, the condition of the edge pred->c.
func blockFacts(b *ssa.BasicBlock) []condFact {
	var fs []condFact
	for c := b; c != nil; c = c.Idom() {
		if len(c.Preds) == 1 {
			p := c.Preds[0]
			for i, s := range p.Succs {
				if s == c {
					if cond, truth, ok := edgeCond(p, i); ok {
						fs = append(fs, condFact{cond, truth})
					}
				}
			}
		}
	}
	return fs
}

// edgeFacts lists facts holding when control flows from pred into blk (pred's block facts plus the edge).
func edgeFacts(pred, blk *ssa.BasicBlock) []condFact {
	fs := blockFacts(pred)
	for i, s := range pred.Succs {
		if s == blk {
			if cond, truth, ok := edgeCond(pred, i); ok {
				fs = append(fs, condFact{cond, truth})
			}
		}
	}
	return fs
}

// cmpFact decomposes a fact into a relation x op y between SSA values (op normalised for truth).
func (f condFact) rel() (op token.Token, x, y ssa.Value, ok bool) {
	bin, isb := f.Cond.(*ssa.BinOp)
	if !isb {
		return 0, nil, nil, false
	}
	op = bin.Op
	switch op {
	case token.EQL, token.NEQ, token.LSS, token.LEQ, token.GTR, token.GEQ:
	default:
		return 0, nil, nil, false
	}
	if !f.Truth {
		op = negateOp(op)
	}
	return op, bin.X, bin.Y, true
}

func negateOp(op token.Token) token.Token {
	switch op {
	case token.LSS:
		return token.GEQ
	case token.LEQ:
		return token.GTR
	case token.GTR:
		return token.LEQ
	case token.GEQ:
		return token.LSS
	case token.EQL:
		return token.NEQ
	case token.NEQ:
		return token.EQL
	}
	return token.ILLEGAL
}

func flipOp(op token.Token) token.Token {
	switch op {
	case token.LSS:
		return token.GTR
	case token.LEQ:
		return token.GEQ
	case token.GTR:
		return token.LSS
	case token.GEQ:
		return token.LEQ
	}
	return op
}

// sameValue treats two SSA values as the same when they are identical, or both are loads of the same
// field path from the same base with no intervening analysis (access-path equality), or equal constants.
func sameValue(a, b ssa.Value) bool {
	if a == b {
		return true
	}
	if ca, ok := a.(*ssa.Const); ok {
		if cb, ok := b.(*ssa.Const); ok {
			if ca.Value == nil || cb.Value == nil {
				return ca.Value == nil && cb.Value == nil && types.Identical(ca.Type(), cb.Type())
			}
			return ca.Value.ExactString() == cb.Value.ExactString()
		}
		return false
	}
	pa, pb := accessPath(a), accessPath(b)
	return pa != "" && pa == pb
}

// accessPath renders loads such as *(&(*p).curr.Type) as "p.curr.Type"; "" when not a pure path.
func accessPath(v ssa.Value) string {
	switch v := v.(type) {
	case *ssa.Parameter:
		return "param:" + v.Name()
	case *ssa.FreeVar:
		return "free:" + v.Name()
	case *ssa.UnOp:
		if v.Op == token.MUL {
			if p := accessPath(v.X); p != "" {
				return "*" + p
			}
		}
	case *ssa.FieldAddr:
		if p := accessPath(v.X); p != "" {
			return p + "." + fieldName(v)
		}
	case *ssa.Field:
		if p := accessPath(v.X); p != "" {
			st := v.X.Type().Underlying().(*types.Struct)
			return p + "." + st.Field(v.Field).Name()
		}
	case *ssa.Alloc:
		// a local that only holds a spilled parameter
		return "alloc:" + v.Name()
	}
	return ""
}

func fieldName(fa *ssa.FieldAddr) string {
	t := fa.X.Type().Underlying().(*types.Pointer).Elem().Underlying().(*types.Struct)
	return t.Field(fa.Field).Name()
}

// reaches reports whether block `to` is reachable from block `from` without passing through `avoid` blocks.
func reaches(from, to *ssa.BasicBlock, avoid map[*ssa.BasicBlock]bool) bool {
	seen := map[*ssa.BasicBlock]bool{}
	var walk func(b *ssa.BasicBlock) bool
	walk = func(b *ssa.BasicBlock) bool {
		if b == to {
			return true
		}
		if seen[b] || avoid[b] {
			return false
		}
		seen[b] = true
		for _, s := range b.Succs {
			if walk(s) {
				return true
			}
		}
		return false
	}
	return walk(from)
}

// loopHeaders returns the natural-loop headers of fn (targets of back edges) with their bodies.
func loopsOf(fn *ssa.Function) map[*ssa.BasicBlock]map[*ssa.BasicBlock]bool {
	loops := map[*ssa.BasicBlock]map[*ssa.BasicBlock]bool{}
	for _, b := range fn.Blocks {
		for _, h := range b.Succs {
			if h.Dominates(b) {
				body := loops[h]
				if body == nil {
					body = map[*ssa.BasicBlock]bool{h: true}
					loops[h] = body
				}
				// blocks that reach b without passing h
				var stack []*ssa.BasicBlock
				if !body[b] {
					body[b] = true
					stack = append(stack, b)
				}
				for len(stack) > 0 {
					x := stack[len(stack)-1]
					stack = stack[:len(stack)-1]
					for _, p := range x.Preds {
						if !body[p] {
							body[p] = true
							stack = append(stack, p)
						}
					}
				}
			}
		}
	}
	return loops
}

// instrPos finds a usable position for an instruction (falling back to neighbours in its block).
func instrPos(in ssa.Instruction) token.Pos {
	if in.Pos().IsValid() {
		return in.Pos()
	}
	if v, ok := in.(ssa.Value); ok {
		if rs := v.Referrers(); rs != nil {
			for _, r := range *rs {
				if r.Pos().IsValid() {
					return r.Pos()
				}
			}
		}
	}
	b := in.Block()
	if b != nil {
		for _, x := range b.Instrs {
			if x.Pos().IsValid() {
				return x.Pos()
			}
		}
		if b.Parent() != nil {
			return b.Parent().Pos()
		}
	}
	return token.NoPos
}

func blockPos(b *ssa.BasicBlock) token.Pos {
	for _, in := range b.Instrs {
		if in.Pos().IsValid() {
			return in.Pos()
		}
	}
	for _, s := range b.Succs {
		for _, in := range s.Instrs {
			if in.Pos().IsValid() {
				return in.Pos()
			}
		}
	}
	return b.Parent().Pos()
}

// derefType strips one pointer.
func derefType(t types.Type) types.Type {
	if p, ok := t.Underlying().(*types.Pointer); ok {
		return p.Elem()
	}
	return t
}

func typeShort(t types.Type) string {
	return types.TypeString(t, func(p *types.Package) string { return p.Name() })
}

// returnsOf lists the Return instructions of fn.
func returnsOf(fn *ssa.Function) []*ssa.Return {
	var out []*ssa.Return
	for _, b := range fn.Blocks {
		if len(b.Instrs) > 0 {
			if r, ok := b.Instrs[len(b.Instrs)-1].(*ssa.Return); ok {
				out = append(out, r)
			}
		}
	}
	return out
}

// ---------------------------------------------------------------- captured variables

// resolveCell follows a captured variable (a free variable of a closure) to the local variable cell of the enclosing
// function it stands for.
func resolveCell(fn *ssa.Function, x ssa.Value, depth int) (*ssa.Alloc, *ssa.Function) {
	if depth > 6 || fn == nil {
		return nil, nil
	}
	switch x := x.(type) {
	case *ssa.Alloc:
		return x, fn
	case *ssa.FreeVar:
		idx := -1
		for i, fv := range fn.FreeVars {
			if fv == x {
				idx = i
			}
		}
		parent := fn.Parent()
		if idx < 0 || parent == nil {
			return nil, nil
		}
		for _, b := range parent.Blocks {
			for _, in := range b.Instrs {
				if mc, ok := in.(*ssa.MakeClosure); ok && mc.Fn == ssa.Value(fn) && idx < len(mc.Bindings) {
					return resolveCell(parent, mc.Bindings[idx], depth+1)
				}
			}
		}
	}
	return nil, nil
}

// cellStores lists the values stored into a variable cell by the function that owns it and by every closure that
// captures it; ok=false when the cell's address is used in any other way.
func cellStores(cell ssa.Value, depth int) (vals []ssa.Value, ok bool) {
	if depth > 6 {
		return nil, false
	}
	var refs *[]ssa.Instruction
	switch c := cell.(type) {
	case *ssa.Alloc:
		refs = c.Referrers()
	case *ssa.FreeVar:
		refs = c.Referrers()
	}
	if refs == nil {
		return nil, false
	}
	for _, ref := range *refs {
		switch r := ref.(type) {
		case *ssa.Store:
			if r.Addr != cell {
				return nil, false // the address itself is stored somewhere
			}
			vals = append(vals, r.Val)
		case *ssa.UnOp, *ssa.DebugRef:
		case *ssa.MakeClosure:
			cl, _ := r.Fn.(*ssa.Function)
			if cl == nil {
				return nil, false
			}
			for i, b := range r.Bindings {
				if b == cell && i < len(cl.FreeVars) {
					vs, ok := cellStores(cl.FreeVars[i], depth+1)
					if !ok {
						return nil, false
					}
					vals = append(vals, vs...)
				}
			}
		default:
			return nil, false
		}
	}
	return vals, true
}

// capturedParam: v loads a variable that, over its whole life and in every closure sharing it, only ever holds one
// parameter of the function that declares it (a parameter captured by a closure, or spilled to a cell). That parameter
// and its function are returned.
func capturedParam(fn *ssa.Function, v ssa.Value) (*ssa.Parameter, *ssa.Function) {
	ld, ok := v.(*ssa.UnOp)
	if !ok || ld.Op != token.MUL {
		return nil, nil
	}
	cell, owner := resolveCell(fn, ld.X, 0)
	if cell == nil {
		return nil, nil
	}
	vals, ok := cellStores(cell, 0)
	if !ok || len(vals) == 0 {
		return nil, nil
	}
	var prm *ssa.Parameter
	for _, sv := range vals {
		p, ok := sv.(*ssa.Parameter)
		if !ok || (prm != nil && p != prm) {
			return nil, nil
		}
		prm = p
	}
	return prm, owner
}

// exemptVia: a per-function exemption extends to a helper that exists only to do the exempt functions' work: every
// static call site of the helper lies in an exempt function (or a closure written in one, or another such helper).
func exemptVia(p *Program, fn *ssa.Function, exempt func(name string) bool, depth int) (string, bool) {
	if depth > 3 {
		return "", false
	}
	sites := callSitesOf(fn)
	if len(sites) == 0 {
		return "", false
	}
	via := ""
	for _, s := range sites {
		caller := s.Parent()
		for caller != nil && caller.Parent() != nil {
			caller = caller.Parent()
		}
		if caller == nil {
			return "", false
		}
		if caller.Origin() != nil {
			caller = caller.Origin()
		}
		cn := p.FuncName(caller)
		if exempt(cn) {
			via = cn
			continue
		}
		if caller == fn {
			continue
		}
		if v, ok := exemptVia(p, caller, exempt, depth+1); ok {
			via = v
			continue
		}
		return "", false
	}
	return via, via != ""
}
