package main

// tpi.go: the parser domain of the abstract interpreter ("token-protocol interpreter").
//
// The lexer is modelled as an unbounded stream of fresh symbolic tokens t1, t2, ...; the parser's curr/next fields start
// as t1/t2 and every call into the lexer package that receives a *Token stores the next fresh token there. Branches on a
// token's type pin it (or exclude a value) in the path facts. Calls into the recursive core of the grammar (the functions
// in the strongly connected component of the expression parser) are not followed: they become Sub/Expr events that
// consume an unknown number of tokens and return a non-nil node. At the end of a path the rule can read off: the exact
// sequence of token types and sub-expressions the path consumed, the node it built (type and fields) or the error type.

import (
	"fmt"
	"go/constant"
	"go/token"
	"go/types"
	"sort"
	"strings"

	"golang.org/x/tools/go/ssa"
)

type parserDom struct {
	p         *Program
	e         *Engine
	pobj      *avObj
	book      *avObj       // bookkeeping of the domain (token counter, token symbols, which object is the parser)
	tokField  [2]string    // names of the parser's current-token and look-ahead-token fields
	tokenElem [2]string    // names of the token's type and value fields
	ptype     *types.Named // parser struct
	exprFn    *ssa.Function
	precFn    *ssa.Function
	scc       map[*ssa.Function]bool
	wrapper   map[*ssa.Function]bool
	inferring bool // role inference in progress: the classification by wrappers applies
	root      *ssa.Function
	forceOpen map[*ssa.Function]bool // SCC members to inline for this analysis
	// opaqueOnly, when set, replaces the default policy: exactly these functions (and the analysed root) are not followed
	opaqueOnly map[*ssa.Function]bool
	tokNames   map[int64]string
	tokByName  map[string]int64
	base       *State
	why        string
}

func staticCallees(fn *ssa.Function) []*ssa.Function {
	var out []*ssa.Function
	for _, b := range fn.Blocks {
		for _, in := range b.Instrs {
			if c, ok := in.(ssa.CallInstruction); ok {
				if callee := c.Common().StaticCallee(); callee != nil {
					out = append(out, callee)
				}
			}
		}
	}
	for _, an := range fn.AnonFuncs {
		out = append(out, staticCallees(an)...)
	}
	return out
}

func newParserDom(p *Program) *parserDom {
	d := &parserDom{p: p, tokNames: tokenNames(p), tokByName: map[string]int64{}}
	for v, n := range d.tokNames {
		d.tokByName[n] = v
	}
	pkg := p.SSA.Package(p.Parser.Types)
	if pkg == nil {
		d.why = "parser package has no SSA form"
		return d
	}
	// the parser type: the struct type of package parser that has fields of type lexer.Token
	for _, m := range pkg.Members {
		t, ok := m.(*ssa.Type)
		if !ok {
			continue
		}
		nt, ok := t.Type().(*types.Named)
		if !ok {
			continue
		}
		st, ok := nt.Underlying().(*types.Struct)
		if !ok {
			continue
		}
		ntok := 0
		var tf [2]string
		for i := 0; i < st.NumFields(); i++ {
			if isLexerToken(st.Field(i).Type()) {
				if ntok < 2 {
					tf[ntok] = st.Field(i).Name()
				}
				ntok++
			}
		}
		if ntok >= 2 {
			d.ptype = nt
			d.tokField = tf // declaration order: the current token, then the look-ahead
			// the token's fields: the TokenType-typed one and the string one
			d.tokenElem = [2]string{"Type", "Value"}
			for i := 0; i < st.NumFields(); i++ {
				if isLexerToken(st.Field(i).Type()) {
					if ts, ok := st.Field(i).Type().Underlying().(*types.Struct); ok {
						for k := 0; k < ts.NumFields(); k++ {
							if isTokenType(ts.Field(k).Type()) {
								d.tokenElem[0] = ts.Field(k).Name()
							} else if b, ok := ts.Field(k).Type().Underlying().(*types.Basic); ok && b.Info()&types.IsString != 0 {
								d.tokenElem[1] = ts.Field(k).Name()
							}
						}
					}
				}
			}
		}
	}
	if d.ptype == nil {
		d.why = "no struct type with two lexer.Token fields (the parser state) found"
		return d
	}
	// the token state may be a struct of its own (a cursor) held by value in the type that has the grammar methods
	hasExprMethod := func(nt *types.Named) bool {
		ms := p.SSA.MethodSets.MethodSet(types.NewPointer(nt))
		for i := 0; i < ms.Len(); i++ {
			sig, _ := ms.At(i).Type().(*types.Signature)
			if sig == nil || sig.Params().Len() != 1 || sig.Results().Len() != 2 || !isNodeType(sig.Results().At(0).Type()) {
				continue
			}
			if b, ok := sig.Params().At(0).Type().Underlying().(*types.Basic); ok && b.Kind() == types.Int {
				return true
			}
		}
		return false
	}
	if !hasExprMethod(d.ptype) {
		base := d.tokField
		var outers []*types.Named
		for _, m := range pkg.Members {
			t, ok := m.(*ssa.Type)
			if !ok {
				continue
			}
			nt, ok := t.Type().(*types.Named)
			if !ok || nt == d.ptype {
				continue
			}
			st, ok := nt.Underlying().(*types.Struct)
			if !ok {
				continue
			}
			for i := 0; i < st.NumFields(); i++ {
				if types.Identical(st.Field(i).Type(), d.ptype) && hasExprMethod(nt) {
					outers = append(outers, nt)
					d.tokField = [2]string{st.Field(i).Name() + "." + base[0], st.Field(i).Name() + "." + base[1]}
				}
			}
		}
		if len(outers) == 1 {
			d.ptype = outers[0]
		}
	}
	// methods of the parser
	var methods []*ssa.Function
	ms := p.SSA.MethodSets.MethodSet(types.NewPointer(d.ptype))
	for i := 0; i < ms.Len(); i++ {
		if fn := p.SSA.MethodValue(ms.At(i)); fn != nil && len(fn.Blocks) > 0 {
			methods = append(methods, fn)
		}
	}
	sort.Slice(methods, func(i, j int) bool { return methods[i].Name() < methods[j].Name() })
	reach := func(from *ssa.Function) map[*ssa.Function]bool {
		seen := map[*ssa.Function]bool{}
		var walk func(f *ssa.Function)
		walk = func(f *ssa.Function) {
			for _, c := range staticCallees(f) {
				if !seen[c] && c.Pkg == pkg {
					seen[c] = true
					walk(c)
				}
			}
		}
		walk(from)
		return seen
	}
	reaches := map[*ssa.Function]map[*ssa.Function]bool{}
	for _, m := range methods {
		reaches[m] = reach(m)
	}
	// the expression entry: the (int) (Node, error) method called from a parser method that is not itself recursive
	isExprSig := func(fn *ssa.Function) bool {
		sig := fn.Signature
		if sig.Params().Len() != 1 || sig.Results().Len() != 2 {
			return false
		}
		b, ok := sig.Params().At(0).Type().Underlying().(*types.Basic)
		return ok && b.Kind() == types.Int && isNodeType(sig.Results().At(0).Type())
	}
	// ... called from a function of the package that is not itself part of the recursion (a method such as parse(), or
	// the package's entry function when the top level was inlined into it)
	var entries []*ssa.Function
	entries = append(entries, methods...)
	for _, f := range p.Funcs {
		if f.Pkg == pkg && f.Parent() == nil && f.Signature.Recv() == nil {
			entries = append(entries, f)
		}
	}
	for _, m := range entries {
		if reaches[m] != nil && reaches[m][m] {
			continue
		}
		for _, c := range staticCallees(m) {
			if isExprSig(c) && reaches[c] != nil && reaches[c][c] {
				d.exprFn = c
			}
		}
	}
	if d.exprFn == nil {
		d.why = "the expression entry point (an (int) (Node, error) method called from the non-recursive parse entry) was not found"
		return d
	}
	d.scc = map[*ssa.Function]bool{}
	for _, m := range methods {
		if (m == d.exprFn || reaches[d.exprFn][m]) && reaches[m][d.exprFn] {
			d.scc[m] = true
		}
	}
	// leaf sub-parsers (they consume tokens but never re-enter the expression parser): same treatment as the recursive core
	for _, m := range methods {
		sig := m.Signature
		if !d.scc[m] && sig.Params().Len() == 1 && isNodeType(sig.Params().At(0).Type()) && sig.Results().Len() >= 2 && isNodeType(sig.Results().At(0).Type()) &&
			isErrorType(sig.Results().At(sig.Results().Len()-1).Type()) {
			d.scc[m] = true
		}
	}
	d.wrapper = map[*ssa.Function]bool{}
	for m := range d.scc {
		if m == d.exprFn {
			continue
		}
		if len(loopsOf(m)) > 0 {
			continue
		}
		only := true
		for _, b := range m.Blocks {
			for _, in := range b.Instrs {
				iff, ok := in.(*ssa.If)
				if !ok {
					continue
				}
				bo, ok := iff.Cond.(*ssa.BinOp)
				if !ok || !(isNilConst(bo.X) || isNilConst(bo.Y)) {
					only = false
				}
			}
		}
		// a function that reads tokens through a helper outside the recursive core (a cursor's expect/advance) parses
		// something itself: not a wrapper
		if only {
			d.wrapper[m] = true // role inference (inferRoles) takes a function out of this set again when it plays a role
		}
	}
	// precedence: func(lexer.TokenType) int in package parser
	for _, m := range pkg.Members {
		fn, ok := m.(*ssa.Function)
		if !ok {
			continue
		}
		sig := fn.Signature
		if sig.Recv() == nil && sig.Params().Len() == 1 && sig.Results().Len() == 1 && isTokenType(sig.Params().At(0).Type()) {
			if b, ok := sig.Results().At(0).Type().Underlying().(*types.Basic); ok && b.Kind() == types.Int {
				// the binding-power table: among several functions of this signature (a helper that picks the power of a
				// projection's right-hand side has it too) the one the operator loop's own function calls
				if d.precFn == nil || calledBy(fn, d.exprFn, pkg) && !calledBy(d.precFn, d.exprFn, pkg) || (calledBy(fn, d.exprFn, pkg) == calledBy(d.precFn, d.exprFn, pkg) && distinctConstReturns(fn) > distinctConstReturns(d.precFn)) {
					d.precFn = fn
				}
			}
		}
	}
	return d
}

func isLexerToken(t types.Type) bool {
	nt, ok := types.Unalias(t).(*types.Named)
	return ok && nt.Obj().Name() == "Token" && nt.Obj().Pkg() != nil && strings.HasSuffix(nt.Obj().Pkg().Path(), "/lexer")
}

func isNodeType(t types.Type) bool {
	nt, ok := types.Unalias(t).(*types.Named)
	return ok && nt.Obj().Name() == "Node" && nt.Obj().Pkg() != nil && strings.HasSuffix(nt.Obj().Pkg().Path(), "/parser")
}

// start prepares an engine and an initial state: parser object with curr=t1, next=t2, package globals initialised.
func (d *parserDom) start(root *ssa.Function, open ...*ssa.Function) (*Engine, *State) {
	e := newEngine(d.p, d)
	d.e = e
	d.root = root
	d.forceOpen = map[*ssa.Function]bool{}
	d.opaqueOnly = nil
	for _, f := range open {
		d.forceOpen[f] = true
	}
	d.pobj = e.NewObj("parser", d.ptype)
	d.book = e.NewObj("book", nil)
	st := newState()
	// package initialisers (tables and sentinel values held in package-level variables)
	st = e.WithInit(d.p.SSA.Package(d.p.Parser.Types), st)
	st.store(avPtr{d.book, "#n"}, avConst{constant.MakeInt64(0)})
	if root.Signature.Recv() != nil || root == d.precFn {
		// a method is entered with the two look-ahead tokens in place; an entry function primes them itself
		st.store(avPtr{d.book, "#pobj"}, avPtr{d.pobj, ""})
		st.store(avPtr{d.pobj, "." + d.tokField[0]}, d.newToken(st))
		st.store(avPtr{d.pobj, "." + d.tokField[1]}, d.newToken(st))
	}
	return e, st
}

// initDom is used while interpreting package initialisers: nothing is modelled, absent global content is zero.
type initDom struct{}

func (initDom) Call(e *Engine, st *State, site ssa.CallInstruction, callee *ssa.Function, args []AV, depth int) ([]CallOut, bool) {
	if callee != nil && !e.P.IsRepo(callee) {
		res := make([]AV, site.Common().Signature().Results().Len())
		return []CallOut{{St: st, Res: res}}, true
	}
	if callee != nil && callee.Name() == "init" && depth > 0 {
		return []CallOut{{St: st, Res: nil}}, true
	}
	return nil, false
}
func (initDom) Load(e *Engine, st *State, p avPtr, t types.Type) AV { return zeroAV(t) }

func (d *parserDom) newToken(st *State) avStruct {
	nv, _ := st.load(avPtr{d.book, "#n"})
	n, _ := st.KnownInt(nv)
	n++
	st.store(avPtr{d.book, "#n"}, avConst{constant.MakeInt64(n)})
	t := avSym{id: d.e.fresh(), tag: fmt.Sprintf("tokT%d", n)}
	v := avSym{id: d.e.fresh(), tag: fmt.Sprintf("tokV%d", n)}
	st.store(avPtr{d.book, fmt.Sprintf("#tok[%d].T", n)}, t)
	st.store(avPtr{d.book, fmt.Sprintf("#tok[%d].V", n)}, v)
	return avStruct{f: map[string]AV{d.tokenElem[0]: t, d.tokenElem[1]: v}}
}

// SetToken pins token i (1-based) to a type (by name) and optionally a constant value.
func (d *parserDom) SetToken(st *State, i int, typ string, value *string) bool {
	tv, ok := st.load(avPtr{d.book, fmt.Sprintf("#tok[%d].T", i)})
	if !ok {
		return false
	}
	c, known := d.tokByName[typ]
	if !known {
		return false
	}
	if !st.assumeInt(tv.(avSym).id, token.EQL, c) {
		return false
	}
	if value != nil {
		// replace the value symbol by a constant wherever the token currently sits
		vs, _ := st.load(avPtr{d.book, fmt.Sprintf("#tok[%d].V", i)})
		po := d.parserObj(st)
		for _, f := range []string{"." + d.tokField[0], "." + d.tokField[1]} {
			if got, ok := st.load(avPtr{po, f + "." + d.tokenElem[1]}); ok && avKey(got) == avKey(vs) {
				st.store(avPtr{po, f + "." + d.tokenElem[1]}, avConst{constant.MakeString(*value)})
			}
		}
	}
	return true
}

// parserObj is the object that currently plays the parser (the one handed to the analysed method, or the one the entry
// function allocated and passed to the lexer).
func (d *parserDom) parserObj(st *State) *avObj {
	if v, ok := st.load(avPtr{d.book, "#pobj"}); ok {
		if p, ok := v.(avPtr); ok {
			return p.o
		}
	}
	return d.pobj
}

func (d *parserDom) tokenIndex(st *State, typeSym AV) int {
	sy, ok := typeSym.(avSym)
	if !ok {
		return -1
	}
	var n int
	if _, err := fmt.Sscanf(sy.tag, "tokT%d", &n); err != nil {
		return -1
	}
	return n
}

func (d *parserDom) currIndex(st *State) int {
	v, ok := st.load(avPtr{d.parserObj(st), "." + d.tokField[0] + "." + d.tokenElem[0]})
	if !ok {
		return -1
	}
	return d.tokenIndex(st, v)
}

func (d *parserDom) Load(e *Engine, st *State, p avPtr, t types.Type) AV {
	if strings.HasPrefix(p.o.label, "global:") {
		return zeroAV(t)
	}
	return avSym{id: e.fresh(), tag: "field" + p.path}
}

func (d *parserDom) Call(e *Engine, st *State, site ssa.CallInstruction, callee *ssa.Function, args []AV, depth int) ([]CallOut, bool) {
	if callee == nil {
		return nil, false
	}
	sig := callee.Signature
	nres := sig.Results().Len()
	// lexer: any function of the lexer package receiving a *Token produces the next token there
	if callee.Pkg != nil && strings.HasSuffix(callee.Pkg.Pkg.Path(), "/lexer") {
		for i := 0; i < sig.Params().Len(); i++ {
			pt, ok := sig.Params().At(i).Type().(*types.Pointer)
			if !ok || !isLexerToken(pt.Elem()) {
				continue
			}
			ai := i
			if sig.Recv() != nil {
				ai++
			}
			if ptr, ok := args[ai].(avPtr); ok {
				if ptr.o.typ != nil && types.Identical(ptr.o.typ, d.ptype) {
					st.store(avPtr{d.book, "#pobj"}, avPtr{ptr.o, ""}) // the parser may be a local of the entry function
				}
				st.store(ptr, d.newToken(st))
				st.event(Event{Kind: "lex", Fn: callee, Pos: site.Pos()})
			}
		}
		res := make([]AV, nres)
		for i := range res {
			if isErrorType(sig.Results().At(i).Type()) {
				res[i] = avNil{}
			}
		}
		return []CallOut{{St: st, Res: res}}, true
	}
	full := callee.String()
	if full == "strconv.Atoi" || full == "strconv.ParseInt" {
		ok := avSym{id: e.fresh(), tag: "atoi", payload: args[0]}
		bad := st.clone()
		return []CallOut{{St: st, Res: []AV{ok, avNil{}}}, {St: bad, Res: []AV{avConst{constant.MakeInt64(0)}, avSym{id: e.fresh(), tag: "atoi-err", nonNil: true}}}}, true
	}
	if callee == d.precFn {
		if c, ok := st.KnownInt(args[0]); ok {
			return e.Inline(callee, []AV{avConst{constant.MakeInt64(c)}}, nil, st, depth), true
		}
		return []CallOut{{St: st, Res: []AV{avSym{id: e.fresh(), tag: "prec", payload: args[0]}}}}, true
	}
	// predicates over nodes (func(Node) bool): an opaque, memoised answer instead of one path per node type
	if callee.Pkg != nil && callee.Pkg.Pkg == d.p.Parser.Types && sig.Recv() == nil && sig.Params().Len() == 1 && nres == 1 &&
		isNodeType(sig.Params().At(0).Type()) && isBoolType(sig.Results().At(0).Type()) {
		if _, concrete := args[0].(avIface); !concrete {
			return []CallOut{{St: st, Res: []AV{avSym{id: 0, tag: "pred:" + callee.Name() + "(" + avKey(args[0]) + ")", payload: args[0]}}}}, true
		}
	}
	if d.isOpaque(callee) {
		from := d.currIndex(st)
		kind := "sub"
		if callee == d.exprFn {
			kind = "expr"
		}
		st.store(avPtr{d.parserObj(st), "." + d.tokField[0]}, d.newToken(st))
		st.store(avPtr{d.parserObj(st), "." + d.tokField[1]}, d.newToken(st))
		to := d.currIndex(st)
		res := make([]AV, nres)
		for i := range res {
			rt := sig.Results().At(i).Type()
			switch {
			case isErrorType(rt):
				res[i] = avNil{}
			case isNodeType(rt):
				// the expression parser and the bracket-specifier parser never return a nil node without an error;
				// other sub-parsers may (the projection parser returns nil when no selector follows)
				res[i] = avSym{id: e.fresh(), tag: kind + ":" + callee.Name(), nonNil: i == 0 && (kind == "expr" || nres == 3)}
			default:
				res[i] = avSym{id: e.fresh(), tag: kind + "-res:" + callee.Name()}
			}
		}
		st.event(Event{Kind: kind, Fn: callee, Args: args, Res: res, Pos: site.Pos(), Note: fmt.Sprintf("%d %d", from, to)})
		return []CallOut{{St: st, Res: res}}, true
	}
	// literal helpers of the parser package: functions (not methods) over strings with an error result
	if callee.Pkg != nil && callee.Pkg.Pkg == d.p.Parser.Types && sig.Recv() == nil && nres >= 2 && isErrorType(sig.Results().At(nres-1).Type()) && callee != d.precFn && takesString(sig) {
		res := make([]AV, nres)
		for i := 0; i < nres-1; i++ {
			res[i] = avSym{id: e.fresh(), tag: "lit:" + callee.Name(), nonNil: true, payload: avTuple(args)}
		}
		res[nres-1] = avNil{}
		st.event(Event{Kind: "lit", Fn: callee, Args: args, Res: res, Pos: site.Pos()})
		bad := st.clone()
		badRes := make([]AV, nres)
		for i := 0; i < nres-1; i++ {
			badRes[i] = zeroAV(sig.Results().At(i).Type())
		}
		badRes[nres-1] = avSym{id: e.fresh(), tag: "lit-err:" + callee.Name(), nonNil: true}
		return []CallOut{{St: st, Res: res}, {St: bad, Res: badRes}}, true
	}
	return nil, false
}

// readsTokensOutsideCore: m calls, directly or through helpers of the package that are not grammar functions, a
// function of the lexer package that produces a token.
func (d *parserDom) readsTokensOutsideCore(m *ssa.Function, pkg *ssa.Package) bool {
	seen := map[*ssa.Function]bool{}
	var walk func(f *ssa.Function, top bool) bool
	walk = func(f *ssa.Function, top bool) bool {
		if seen[f] {
			return false
		}
		seen[f] = true
		for _, c := range staticCallees(f) {
			if c.Pkg != nil && strings.HasSuffix(c.Pkg.Pkg.Path(), "/lexer") {
				sig := c.Signature
				for i := 0; i < sig.Params().Len(); i++ {
					if pt, ok := sig.Params().At(i).Type().(*types.Pointer); ok && isLexerToken(pt.Elem()) && !top {
						return true
					}
				}
				continue
			}
			if c.Pkg != pkg || d.scc[c] {
				continue
			}
			if walk(c, false) {
				return true
			}
		}
		return false
	}
	return walk(m, true)
}

// calledBy: fn is a static callee of the expression entry or of a method it calls directly.
func calledBy(fn, from *ssa.Function, pkg *ssa.Package) bool {
	if from == nil {
		return false
	}
	for _, c := range staticCallees(from) {
		if c == fn {
			return true
		}
	}
	return false
}

func distinctConstReturns(fn *ssa.Function) int {
	seen := map[string]bool{}
	var visit func(v ssa.Value, depth int)
	visit = func(v ssa.Value, depth int) {
		if depth > 4 {
			return
		}
		switch x := v.(type) {
		case *ssa.Const:
			if x.Value != nil {
				seen[x.Value.ExactString()] = true
			}
		case *ssa.Phi:
			for _, e := range x.Edges {
				visit(e, depth+1)
			}
		}
	}
	for _, ret := range returnsOf(fn) {
		if len(ret.Results) == 1 {
			visit(ret.Results[0], 0)
		}
	}
	return len(seen)
}

func takesString(sig *types.Signature) bool {
	for i := 0; i < sig.Params().Len(); i++ {
		if b, ok := sig.Params().At(i).Type().Underlying().(*types.Basic); ok && b.Info()&types.IsString != 0 {
			return true
		}
	}
	return false
}

func (d *parserDom) isOpaque(callee *ssa.Function) bool {
	if d.opaqueOnly != nil {
		return d.opaqueOnly[callee] || callee == d.root
	}
	if rl := d.p.memoRoles; rl != nil && rl.why == "" && len(rl.byFn) > 3 && !d.inferring {
		// once the grammar functions are known: they are the sub-parsers; every other function of the recursive core (a
		// helper that parses a comma-separated list for two of them, an arity helper) is interpreted where it is called
		return d.scc[callee] && !d.forceOpen[callee] && (callee == d.exprFn || rl.byFn[callee] != "")
	}
	return d.scc[callee] && !d.forceOpen[callee] && (callee == d.exprFn || !d.wrapper[callee])
}

// Inline runs callee and converts its returning paths into call outcomes.
func (e *Engine) Inline(callee *ssa.Function, args, free []AV, st *State, depth int) []CallOut {
	var couts []CallOut
	for _, o := range e.call(callee, args, free, st, depth+1) {
		if o.Panic || o.Cut {
			oc := o
			couts = append(couts, CallOut{St: o.St, End: &oc})
			continue
		}
		couts = append(couts, CallOut{St: o.St, Res: o.Res})
	}
	return couts
}

// ---------------------------------------------------------------- path patterns

type patItem struct {
	Tok      int    // token index (0 for sub-expressions)
	Type     string // pinned token type name; "" when not pinned
	Excluded []string
	Ev       *Event // for expr/sub items
}

func (it patItem) String() string {
	if it.Ev != nil {
		if it.Ev.Kind == "expr" {
			return "E"
		}
		return "<" + it.Ev.Fn.Name() + ">"
	}
	if it.Type != "" {
		return strings.TrimSuffix(it.Type, "Token")
	}
	if len(it.Excluded) > 0 {
		return "any-but(" + strings.Join(it.Excluded, ",") + ")"
	}
	return "ANY"
}

func (d *parserDom) tokItem(st *State, i int) patItem {
	it := patItem{Tok: i}
	tv, ok := st.load(avPtr{d.book, fmt.Sprintf("#tok[%d].T", i)})
	if !ok {
		return it
	}
	if c, ok := st.KnownInt(tv); ok {
		it.Type = d.tokNames[c]
		if it.Type == "" {
			it.Type = fmt.Sprintf("token(%d)", c)
		}
		return it
	}
	for c := range st.Excluded(tv) {
		it.Excluded = append(it.Excluded, strings.TrimSuffix(d.tokNames[c], "Token"))
	}
	sort.Strings(it.Excluded)
	return it
}

// consumed returns what the path consumed (tokens and sub-expressions in order) and the two lookahead tokens at its end.
func (d *parserDom) consumed(st *State) (items []patItem, curr, next patItem) {
	i := 1
	for k := range st.Trace {
		ev := &st.Trace[k]
		if ev.Kind != "expr" && ev.Kind != "sub" {
			continue
		}
		var from, to int
		fmt.Sscanf(ev.Note, "%d %d", &from, &to)
		for ; i < from; i++ {
			items = append(items, d.tokItem(st, i))
		}
		items = append(items, patItem{Ev: ev})
		i = to
	}
	ci := d.currIndex(st)
	for ; i < ci; i++ {
		items = append(items, d.tokItem(st, i))
	}
	curr = d.tokItem(st, ci)
	if v, ok := st.load(avPtr{d.parserObj(st), "." + d.tokField[1] + "." + d.tokenElem[0]}); ok {
		next = d.tokItem(st, d.tokenIndex(st, v))
	}
	return
}

func patString(items []patItem) string {
	var parts []string
	for _, it := range items {
		parts = append(parts, it.String())
	}
	return strings.Join(parts, " ")
}

// tokenValueSym returns the Value symbol of token i.
func (d *parserDom) tokenValueSym(st *State, i int) AV {
	v, _ := st.load(avPtr{d.book, fmt.Sprintf("#tok[%d].V", i)})
	return v
}

func dynName(v AV) string {
	t := avDyn(v)
	if t == nil {
		return ""
	}
	s := typeShort(t)
	s = strings.TrimPrefix(s, "*")
	if i := strings.LastIndex(s, "."); i >= 0 {
		s = s[i+1:]
	}
	return canonNodeName(s)
}

// canonNodeName: node type names are compared modulo the one irregularity of the naming scheme: the let node is called
// DefineVariables in the tables of the specification side, with or without the Node suffix in the source.
func canonNodeName(s string) string {
	if s == "DefineVariablesNode" {
		return "DefineVariables"
	}
	return s
}
