package main

// vdom.go: the value domain of the abstract interpreter. A helper of the evaluator (a selector, a projection producer)
// is run on a symbolic subject value: type tests of the subject fork the path, a slice the helper only knows as a
// symbol has a symbolic length and symbolic elements (elem(x,i)), recursive evaluations are events with a value/error
// fork, the truth predicate is an uninterpreted predicate, everything else the repository defines (other helpers,
// closures handed to higher-order helpers, iterator functions and the bodies of range-over-func loops) is interpreted,
// and so are the generic functions of the standard packages slices and maps (their source is part of the loaded
// program). The rules read, per path: which type tests of the subject succeeded, what was returned, and what is known
// about every element of a returned array.

import (
	"fmt"
	"go/constant"
	"go/token"
	"go/types"
	"sort"
	"strings"

	"golang.org/x/tools/go/ssa"
)

type valDom struct {
	p     *Program
	ed    *evalDom
	truth *ssa.Function
	// toDecimal, when set, is kept opaque (dec(v), isnum(v)) instead of being interpreted over every numeric kind
	toDecimal *ssa.Function
	// opaqueSort keeps the sorting routines of the standard library uninterpreted
	opaqueSort bool
	// sortProbe: a call of slices.SortFunc is answered by interpreting its comparator on the first two elements
	sortProbe bool
	why       string
}

// ord is the three-way comparison of a and b as one symbol; ord(b,a) is the same symbol negated.
func (d *valDom) ord(st *State, a, b AV) AV {
	ka, kb := avKey(a), avKey(b)
	if kb < ka {
		return avBin{token.SUB, avConst{constant.MakeInt64(0)}, d.ord(st, b, a)}
	}
	sy := avSym{tag: "ord", payload: avTuple{a, b}}
	st.assumeInt(st.idOf(sy), token.GEQ, -1)
	st.assumeInt(st.idOf(sy), token.LEQ, 1)
	return sy
}

// Cmp: ordering comparisons of two symbolic strings go through the ordering symbol.
func (d *valDom) Cmp(e *Engine, st *State, op token.Token, x, y AV) (AV, bool) {
	sx, ok1 := x.(avSym)
	sy, ok2 := y.(avSym)
	if !ok1 || !ok2 || !strings.HasPrefix(sx.tag, "asserted:string") || !strings.HasPrefix(sy.tag, "asserted:string") {
		return nil, false
	}
	return d.ordCmp(e, st, op, d.ord(st, x, y)), true
}

// ordCmp: o op 0 for an ordering symbol or its negation.
func (d *valDom) ordCmp(e *Engine, st *State, op token.Token, o AV) AV {
	if nb, isNeg := o.(avBin); isNeg && nb.op == token.SUB {
		if c, ok := nb.x.(avConst); ok && constant.Sign(c.v) == 0 {
			// 0 - ord op 0  <=>  ord flip(op) 0
			return e.binop(st, flipOp(op), nb.y, avConst{constant.MakeInt64(0)})
		}
	}
	return e.binop(st, op, o, avConst{constant.MakeInt64(0)})
}

func newValDom(p *Program) *valDom {
	d := &valDom{p: p, ed: newEvalDom(p)}
	if d.ed.why != "" {
		d.why = d.ed.why
		return d
	}
	d.truth = p.RoleFunc("evaluator", "", "isTrue")
	return d
}

func elemSym(x AV, i int64) avSym {
	return avSym{tag: "elem", payload: avTuple{x, avConst{constant.MakeInt64(i)}}}
}

func lenSym(x AV) avSym { return avSym{tag: "len", payload: x} }

func (d *valDom) Load(e *Engine, st *State, p avPtr, t types.Type) AV {
	if p.o.label == "elems" {
		var i int64
		if _, err := fmt.Sscanf(p.path, "[%d]", &i); err == nil && fmt.Sprintf("[%d]", i) == p.path {
			return elemSym(p.o.of, i)
		}
		return avSym{id: e.fresh(), tag: "elem*", payload: p.o.of}
	}
	if strings.HasPrefix(p.o.label, "global:") {
		if t != nil && types.IsInterface(t) {
			return avSym{tag: p.o.label + p.path, nonNil: true, uniq: true}
		}
		return zeroAV(t)
	}
	v := avSym{id: e.fresh(), tag: p.o.label + p.path}
	st.store(p, v)
	return v
}

func originPkgPath(fn *ssa.Function) string {
	for q := fn; q != nil; q = q.Parent() {
		if q.Pkg == nil && q.Origin() != nil && q.Origin() != q {
			q = q.Origin()
		}
		if q.Pkg != nil {
			return q.Pkg.Pkg.Path()
		}
	}
	return ""
}

func (d *valDom) Call(e *Engine, st *State, site ssa.CallInstruction, callee *ssa.Function, args []AV, depth int) ([]CallOut, bool) {
	if callee == nil {
		return nil, false
	}
	if callee == d.ed.evalFn {
		val := avSym{id: e.fresh(), tag: "val"}
		st.event(Event{Kind: "eval", Fn: callee, Args: []AV{args[d.ed.nodeIdx], args[d.ed.curIdx], args[d.ed.scopeIdx]}, Res: []AV{val}, Pos: site.Pos()})
		bad := st.clone()
		err := avSym{id: e.fresh(), tag: "eval-err", nonNil: true}
		return []CallOut{{St: st, Res: []AV{val, avNil{}}}, {St: bad, Res: []AV{avNil{}, err}}}, true
	}
	// orderings: the three-way comparison of two values is one uninterpreted symbol in {-1, 0, 1}
	switch callee.String() {
	case "(github.com/woodsbury/decimal128.Decimal).Cmp", "github.com/woodsbury/decimal128.Compare", "strings.Compare", "cmp.Compare[string]":
		if len(args) == 2 {
			return []CallOut{{St: st, Res: []AV{d.ord(st, args[0], args[1])}}}, true
		}
	case "cmp.Compare[int]", "cmp.Compare[int64]":
		if len(args) == 2 {
			if a, ok := st.KnownInt(args[0]); ok {
				if b, ok := st.KnownInt(args[1]); ok {
					r := int64(0)
					if a < b {
						r = -1
					} else if a > b {
						r = 1
					}
					return []CallOut{{St: st, Res: []AV{avConst{constant.MakeInt64(r)}}}}, true
				}
			}
		}
	case "(github.com/woodsbury/decimal128.Decimal).Equal":
		return []CallOut{{St: st, Res: []AV{d.ordCmp(e, st, token.EQL, d.ord(st, args[0], args[1]))}}}, true
	case "(github.com/woodsbury/decimal128.CmpResult).Less":
		return []CallOut{{St: st, Res: []AV{d.ordCmp(e, st, token.LSS, args[0])}}}, true
	case "(github.com/woodsbury/decimal128.CmpResult).LessOrEqual":
		return []CallOut{{St: st, Res: []AV{d.ordCmp(e, st, token.LEQ, args[0])}}}, true
	case "(github.com/woodsbury/decimal128.CmpResult).Greater":
		return []CallOut{{St: st, Res: []AV{d.ordCmp(e, st, token.GTR, args[0])}}}, true
	case "(github.com/woodsbury/decimal128.CmpResult).GreaterOrEqual":
		return []CallOut{{St: st, Res: []AV{d.ordCmp(e, st, token.GEQ, args[0])}}}, true
	case "(github.com/woodsbury/decimal128.CmpResult).Equal":
		return []CallOut{{St: st, Res: []AV{d.ordCmp(e, st, token.EQL, args[0])}}}, true
	}
	if d.toDecimal != nil && callee == d.toDecimal && len(args) == 1 {
		return []CallOut{{St: st, Res: []AV{avSym{tag: "dec", payload: args[0]}, avSym{tag: "isnum", payload: args[0]}}}}, true
	}
	if callee == d.truth && len(args) == 1 {
		return []CallOut{{St: st, Res: []AV{avSym{tag: "true?", payload: args[0]}}}}, true
	}
	if d.p.IsRepo(callee) {
		return nil, false // interpreted by the engine
	}
	if pp := originPkgPath(callee); d.sortProbe && pp == "slices" && strings.HasPrefix(callee.Name(), "SortFunc") && len(args) == 2 {
		// an unstable sort with a comparator: on the two elements the path has put into the slice, does the comparator
		// order the earlier before the later when their keys compare equal, and never report a tie?
		d.probeComparator(e, st, site, args[0], args[1], depth)
		return []CallOut{{St: st}}, true
	}
	if pp := originPkgPath(callee); d.opaqueSort && (pp == "sort" || pp == "slices" && strings.HasPrefix(callee.Name(), "Sort")) {
		// the ordering step itself is of no interest to the rule: its results are fresh symbols
		var res []AV
		for i := 0; i < callee.Signature.Results().Len(); i++ {
			res = append(res, avSym{id: e.fresh(), tag: "sorted"})
		}
		return []CallOut{{St: st, Res: res}}, true
	}
	if pp := originPkgPath(callee); (pp == "slices" || pp == "maps" || pp == "iter") && len(callee.Blocks) > 0 && depth < e.MaxDepth {
		return e.Inline(callee, args, nil, st, depth), true
	}
	return nil, false
}

// probeComparator interprets comparator cmp on (element 0, element 1) of slice sl and records, as "sort-probe" events,
// what it returns on the paths on which every three-way comparison of keys came out equal: a negative number keeps the
// original order (the comparator breaks ties by position), zero leaves the order of equal elements to the algorithm.
func (d *valDom) probeComparator(e *Engine, st *State, site ssa.CallInstruction, sl, cmp AV, depth int) {
	note := func(verdict, msg string) {
		st.event(Event{Kind: "sort-probe", Note: verdict + ": " + msg, Pos: site.Pos()})
	}
	s, ok := sl.(avSlice)
	if !ok {
		note("unknown", "the slice handed to the sort is "+renderVal(sl))
		return
	}
	n := s.n
	if n < 0 {
		if k, known := st.KnownInt(s.o.of); known {
			n = int(k)
		}
	}
	if n != 2 {
		return // only paths over two elements are probed
	}
	var fn *ssa.Function
	var bind []AV
	switch c := cmp.(type) {
	case avFunc:
		fn, bind = c.fn, c.free
	}
	if fn == nil || len(fn.Blocks) == 0 {
		note("unknown", "the comparator is "+renderVal(cmp))
		return
	}
	x0, _ := st.load(avPtr{s.o, s.path + "[0]"})
	x1, _ := st.load(avPtr{s.o, s.path + "[1]"})
	if x0 == nil || x1 == nil {
		note("unknown", "the elements of the slice are not known")
		return
	}
	for _, out := range e.Inline(fn, []AV{x0, x1}, bind, st.clone(), depth+1) {
		if len(out.Res) != 1 {
			continue
		}
		// only the paths on which every ordering symbol is pinned to 0 (the keys compare equal)
		tie, any := true, false
		for k, id := range out.St.named {
			if !strings.HasPrefix(k, "ord(") {
				continue
			}
			any = true
			if f := out.St.ints[id]; f == nil || f.lo != 0 || f.hi != 0 {
				tie = false
			}
		}
		if !any || !tie {
			continue
		}
		lo, hi, known := int64(0), int64(0), false
		switch v := out.Res[0].(type) {
		case avConst:
			if i, ok := constant.Int64Val(v.v); ok {
				lo, hi, known = i, i, true
			}
		case avSym:
			lo, hi, known = out.St.intRange(v)
		}
		switch {
		case known && hi < 0:
			note("ok", "equal keys: the earlier element sorts first")
		case known && lo == 0 && hi == 0:
			note("tie", "the comparator reports a tie for elements with equal keys: an unstable sort may reorder them")
		default:
			note("bad", fmt.Sprintf("equal keys: the comparator returns %s for (earlier, later)", renderVal(out.Res[0])))
		}
	}
}

// knownNonNil: the path has established that v is not nil.
func (st *State) knownNonNil(v AV) bool {
	if v == nil || isDefNil(v) {
		return false
	}
	if isDefNonNil(v) {
		return true
	}
	if c, ok := v.(avConst); ok && c.v != nil {
		return true
	}
	for _, c := range []struct {
		op   token.Token
		x, y AV
		want bool
	}{{token.EQL, v, avNil{}, false}, {token.EQL, avNil{}, v, false}, {token.NEQ, v, avNil{}, true}, {token.NEQ, avNil{}, v, true}} {
		if t, ok := st.memo[avKey(avCmp{c.op, c.x, c.y})]; ok && t == c.want {
			return true
		}
	}
	// a successful type assertion
	k := avKey(v)
	for _, c := range st.Conds {
		if sy, ok := c.V.(avSym); ok && c.Truth && strings.HasPrefix(sy.tag, "assert-ok:") && sy.payload != nil && avKey(sy.payload) == k {
			return true
		}
	}
	return false
}

// subjectTests: the outcomes of the type tests applied to v on this path.
func (st *State) subjectTests(v AV) (passed, failed []string) {
	k := avKey(v)
	for _, c := range st.Conds {
		sy, ok := c.V.(avSym)
		if !ok || !strings.HasPrefix(sy.tag, "assert-ok:") || sy.payload == nil || avKey(sy.payload) != k {
			continue
		}
		if c.Truth {
			passed = append(passed, strings.TrimPrefix(sy.tag, "assert-ok:"))
		} else {
			failed = append(failed, strings.TrimPrefix(sy.tag, "assert-ok:"))
		}
	}
	return
}

type valRun struct {
	outs    []Outcome
	e       *Engine
	subject avSym
	errIdx  int // index of the error result, -1 if none
}

// run interprets helper fn with a symbolic subject. stop, when set, abandons paths of no interest.
func (d *valDom) run(fn *ssa.Function, visits int, stop func(st *State, subject avSym) bool) (*valRun, string) {
	return d.runWith(fn, visits, stop, nil)
}

func (d *valDom) runWith(fn *ssa.Function, visits int, stop func(st *State, subject avSym) bool, setup func(e *Engine)) (*valRun, string) {
	var subjIdx = -1
	for i, prm := range fn.Params {
		if isAnyType(prm.Type()) && !isNodeType(prm.Type()) {
			subjIdx = i
			break
		}
	}
	if subjIdx < 0 {
		return nil, "no subject parameter (a parameter of type any)"
	}
	e := newEngine(d.p, d)
	e.MaxVisits = visits
	e.SymSlices = true
	if setup != nil {
		setup(e)
	}
	st := e.WithInit(d.ed.pkg, newState())
	vr := &valRun{e: e, errIdx: -1}
	vr.subject = avSym{id: e.fresh(), tag: "subject"}
	args := make([]AV, len(fn.Params))
	for i, prm := range fn.Params {
		switch {
		case i == subjIdx:
			args[i] = vr.subject
		case isNodeType(prm.Type()):
			args[i] = avSym{id: e.fresh(), tag: "node:" + prm.Name(), nonNil: true}
		case d.ed.scopeT != nil && types.Identical(prm.Type(), d.ed.scopeT):
			args[i] = avSym{id: e.fresh(), tag: "scope:" + prm.Name()}
		case isNodeSlice(prm.Type()):
			args[i] = avSym{id: e.fresh(), tag: "nodes:" + prm.Name()}
		case i == 0 && fn.Signature.Recv() != nil:
			args[i] = avPtr{e.NewObj("recv", nil), ""}
		default:
			args[i] = avSym{id: e.fresh(), tag: "arg:" + prm.Name()}
		}
	}
	res := fn.Signature.Results()
	for i := 0; i < res.Len(); i++ {
		if isErrorType(res.At(i).Type()) {
			vr.errIdx = i
		}
	}
	if stop != nil {
		e.Stop = func(st *State) bool { return stop(st, vr.subject) }
	}
	vr.outs = e.Run(fn, args, st)
	if e.Aborted != "" {
		return vr, "path enumeration aborted: " + e.Aborted
	}
	return vr, ""
}

// arrayElems resolves a returned array value to its elements on this path; ok=false with a reason when the path does
// not determine them.
func (vr *valRun) arrayElems(st *State, v AV) (elems []AV, why string) {
	switch x := v.(type) {
	case avSlice:
		n := x.n
		if n < 0 {
			if k, ok := st.KnownInt(x.o.of); ok {
				n = int(k)
			} else {
				// what was stored is part of it
				for k, ev := range st.heap[x.o] {
					if strings.HasPrefix(k, x.path+"[") && !strings.Contains(k[len(x.path)+1:], "[") {
						elems = append(elems, ev)
					}
				}
				return elems, "an array whose length the path does not determine"
			}
		}
		for i := 0; i < n; i++ {
			ev, found := st.load(avPtr{x.o, fmt.Sprintf("%s[%d]", x.path, i)})
			if !found {
				if any, ok := st.load(avPtr{x.o, x.path + "[*]"}); ok {
					ev = any
				} else {
					ev = avNil{} // never written: the zero value
				}
			}
			elems = append(elems, ev)
		}
		return elems, ""
	case avIface:
		return vr.arrayElems(st, x.v)
	case avSym:
		// the subject itself (or the array it was asserted to be), returned as it came
		k, ok := st.KnownInt(lenSym(x))
		if !ok && strings.HasPrefix(x.tag, "asserted:") {
			k, ok = st.KnownInt(lenSym(x))
		}
		if !ok && avKey(x) == avKey(vr.subject) {
			// lengths were taken of the asserted form
			for _, c := range st.Conds {
				if sy, isSym := c.V.(avSym); isSym && c.Truth && strings.HasPrefix(sy.tag, "assert-ok:") && sy.payload != nil && avKey(sy.payload) == avKey(x) {
					as := avSym{tag: "asserted:" + strings.TrimPrefix(sy.tag, "assert-ok:"), payload: x}
					if kk, ok2 := st.KnownInt(lenSym(as)); ok2 {
						for i := int64(0); i < kk; i++ {
							elems = append(elems, elemSym(as, i))
						}
						return elems, ""
					}
				}
			}
		}
		if !ok {
			return nil, "the value " + avKey(x) + ", whose length the path does not determine"
		}
		for i := int64(0); i < k; i++ {
			elems = append(elems, elemSym(x, i))
		}
		return elems, ""
	}
	return nil, "the value " + avKey(v)
}

func isNodeSlice(t types.Type) bool {
	switch u := t.Underlying().(type) {
	case *types.Slice:
		return isNodeType(u.Elem())
	case *types.Array:
		return isNodeType(u.Elem())
	}
	return false
}

// helperFacts: what the interpretation of the evaluator's helpers (each function the dispatcher hands work to, run on a
// symbolic subject with everything it calls interpreted: constructors, collector methods, closures, iterators)
// establishes about each recursive evaluation in them, by call site.
type helperFacts struct {
	why     string
	seenBy  map[token.Pos]map[*ssa.Function]bool // site -> roots whose interpretation reached it
	scopeOK map[token.Pos]bool                   // every time: the scope is the root helper's own scope parameter
	nodeOK  map[token.Pos]bool                   // every time: the node is a node the root helper received
	curRoot map[token.Pos]bool                   // some time: the current value comes from the evaluator object
	roots   []*ssa.Function
	reach   map[*ssa.Function]map[*ssa.Function]bool // root -> functions it reaches without going through the dispatcher
	aborted map[*ssa.Function]string
}

func (p *Program) helperEvalFacts() *helperFacts {
	if p.memoHelperFacts != nil {
		return p.memoHelperFacts
	}
	hf := &helperFacts{seenBy: map[token.Pos]map[*ssa.Function]bool{}, scopeOK: map[token.Pos]bool{}, nodeOK: map[token.Pos]bool{}, curRoot: map[token.Pos]bool{},
		reach: map[*ssa.Function]map[*ssa.Function]bool{}, aborted: map[*ssa.Function]string{}}
	p.memoHelperFacts = hf
	d := newValDom(p)
	if d.why != "" {
		hf.why = d.why
		return hf
	}
	ed := d.ed
	// roots: top-level functions of the package with a scope parameter, other than the dispatcher and the functions
	// interpreted as part of it, from which the dispatcher is reachable
	var cands []*ssa.Function
	for _, f := range p.Funcs {
		if f.Pkg != ed.pkg || f.Parent() != nil || f == ed.evalFn || ed.wrapper[f] || len(f.Blocks) == 0 {
			continue
		}
		hasScope := false
		for i, prm := range f.Params {
			if types.Identical(prm.Type(), ed.scopeT) && !(i == 0 && f.Signature.Recv() != nil) {
				hasScope = true
			}
		}
		if hasScope {
			cands = append(cands, f)
		}
	}
	sort.Slice(cands, func(i, j int) bool { return cands[i].String() < cands[j].String() })
	for _, f := range cands {
		seen := map[*ssa.Function]bool{f: true}
		reachesEval := false
		var walk func(g *ssa.Function)
		walk = func(g *ssa.Function) {
			for _, c := range staticCallees(g) {
				if c == ed.evalFn {
					reachesEval = true
					continue
				}
				if c.Pkg != ed.pkg && !(c.Parent() != nil && p.IsRepo(c)) {
					continue
				}
				if !seen[c] {
					seen[c] = true
					walk(c)
				}
			}
			for _, an := range g.AnonFuncs {
				if !seen[an] {
					seen[an] = true
					walk(an)
				}
			}
		}
		walk(f)
		if !reachesEval {
			continue
		}
		hf.roots = append(hf.roots, f)
		hf.reach[f] = seen
		vr, why := d.run(f, 3, nil)
		if why != "" {
			hf.aborted[f] = why
			continue
		}
		for _, o := range vr.outs {
			for _, ev := range o.St.Trace {
				if ev.Kind != "eval" {
					continue
				}
				pos := ev.Pos
				if hf.seenBy[pos] == nil {
					hf.seenBy[pos] = map[*ssa.Function]bool{}
					hf.scopeOK[pos], hf.nodeOK[pos] = true, true
				}
				hf.seenBy[pos][f] = true
				if sy, ok := ev.Args[2].(avSym); !ok || !strings.HasPrefix(sy.tag, "scope:") {
					hf.scopeOK[pos] = false
				}
				nodeOK := false
				if sy, ok := ev.Args[0].(avSym); ok {
					switch {
					case strings.HasPrefix(sy.tag, "node:"):
						nodeOK = true
					case sy.tag == "elem" || sy.tag == "elem*":
						base := sy.payload
						if t, ok := base.(avTuple); ok && len(t) > 0 {
							base = t[0]
						}
						if bs, ok := base.(avSym); ok && strings.HasPrefix(bs.tag, "nodes:") {
							nodeOK = true
						}
					}
				}
				if !nodeOK {
					hf.nodeOK[pos] = false
				}
				if sy, ok := ev.Args[1].(avSym); ok && strings.HasPrefix(sy.tag, "recv.") {
					hf.curRoot[pos] = true
				}
			}
		}
	}
	return hf
}

// covered: the evaluation at pos, which lies in function g, was reached by the interpretation of every helper that can
// reach g.
func (hf *helperFacts) covered(pos token.Pos, g *ssa.Function) bool {
	for g.Parent() != nil {
		g = g.Parent()
	}
	n := 0
	for _, root := range hf.roots {
		if !hf.reach[root][g] {
			continue
		}
		if hf.aborted[root] != "" || !hf.seenBy[pos][root] {
			return false
		}
		n++
	}
	return n > 0
}
