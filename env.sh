# Environment for building and running the checker (see DESIGN.md §2.1): Go 1.26.8 + x/tools v0.50.0, offline.
export PATH=/opt/veriftools/go1.26.8/bin:$PATH
export GOFLAGS=-mod=mod GOPROXY=off GOSUMDB=off GOTOOLCHAIN=local
unset GOWORK
