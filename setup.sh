#!/bin/sh
# Build the checker from the sources on disk; offline.
set -e
cd "$(dirname "$0")"
. ./env.sh
mkdir -p bin evidence
(cd checker && go build -o ../bin/jmescheck .)
echo "built $(pwd)/bin/jmescheck"
