#!/usr/bin/env python3
import subprocess,sys,os,re
os.chdir('/verif')
def run(diff):
    subprocess.run(['git','-C','/repo','checkout','-q','--','.']); subprocess.run(['git','-C','/repo','clean','-fdq'])
    if diff:
        r=subprocess.run(['git','-C','/repo','apply',diff],capture_output=True,text=True)
        if r.returncode!=0: return None
    out=subprocess.run(['bin/jmescheck','-allrules','-dump'],capture_output=True,text=True).stdout
    subprocess.run(['git','-C','/repo','checkout','-q','--','.']); subprocess.run(['git','-C','/repo','clean','-fdq'])
    res=set()
    for l in out.splitlines():
        m=re.match(r'^(violated|undecided)\s+(\S+)\s+\[([^\]]*)\]\s+(\S+)\s+(.*?) :: ',l)
        if m: res.add((m.group(2),m.group(3),m.group(5)))
    return res
base=sys.argv[1] if len(sys.argv)>1 else '/tmp/seedout5'
ids=sys.argv[2:] or ['C%02d'%i for i in range(1,21)]
import collections
c=collections.Counter(); rsil=0; rtot=0
for pid in ids:
    for k in (1,2,3):
        m='%s/%s/m%d.diff'%(base,pid,k); f='%s/%s/r%d.diff'%(base,pid,k)
        if not os.path.exists(m): print(pid,k,'missing'); continue
        rm=run(m); rf=run(f) if os.path.exists(f) else set()
        if rm is None or rf is None: print(pid,k,'APPLY-FAIL'); continue
        only=rm-rf
        own=[x for x in only if pid in x[1].split(',')]
        v='DISCRIMINATES(own)' if own else ('discriminates(other)' if only else ('MISSED' if not rm else 'NO-DISCRIMINATION'))
        c[v]+=1
        if os.path.exists(f):
            rtot+=1; rsil+= (len(rf)==0)
        print('%s m%d: m fires %d, r fires %d, only-on-m %d (own %d): %s'%(pid,k,len(rm),len(rf),len(only),len(own),v))
        for x in sorted(own)[:2]: print('      own:',x[0],x[2][:110])
        if not own:
            for x in sorted(only)[:2]: print('      other:',x[0],x[2][:110])
        if rf: print('      r fires:',' '.join(sorted(set(x[0] for x in rf)))[:200])
print(dict(c)); print('reference refactorings silent: %d of %d'%(rsil,rtot))
