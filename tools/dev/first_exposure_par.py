#!/usr/bin/env python3
# usage: first_exposure_par.py <dir> [ids...]   — like first_exposure.py, but every patch is analysed in a scratch worktree of its own (8 at a time); /repo is not touched
import subprocess,sys,os,re,collections,concurrent.futures,shutil,tempfile
os.chdir('/verif')
ENV=dict(os.environ); ENV['PATH']='/opt/veriftools/go1.26.8/bin:'+ENV['PATH']; ENV.update(GOFLAGS='-mod=mod',GOPROXY='off',GOSUMDB='off',GOTOOLCHAIN='local'); ENV.pop('GOWORK',None)
def run(diff):
    wt=tempfile.mkdtemp(prefix='fe_',dir='/tmp'); os.rmdir(wt)
    subprocess.run(['git','-C','/repo','worktree','add','-q','--detach',wt,'HEAD'],check=True)
    try:
        if diff:
            r=subprocess.run(['git','-C',wt,'apply',diff],capture_output=True,text=True)
            if r.returncode!=0: return None
        out=subprocess.run([os.environ.get('JMESCHECK_BIN','bin/jmescheck'),'-repo',wt,'-allrules','-dump'],capture_output=True,text=True,env=ENV).stdout
    finally:
        subprocess.run(['git','-C','/repo','worktree','remove','--force',wt])
    res=set()
    for l in out.splitlines():
        m=re.match(r'^(violated|undecided)\s+(\S+)\s+\[([^\]]*)\]\s+(\S+)\s+(.*?) :: ',l)
        if m: res.add((m.group(2),m.group(3),m.group(5)))
    return res
base=sys.argv[1]; ids=sys.argv[2:] or ['C%02d'%i for i in range(1,21)]
jobs={}
with concurrent.futures.ThreadPoolExecutor(8) as ex:
    for pid in ids:
        for k in (1,2,3):
            m='%s/%s/m%d.diff'%(base,pid,k); f='%s/%s/r%d.diff'%(base,pid,k)
            if os.path.exists(m): jobs[(pid,k,'m')]=ex.submit(run,m)
            if os.path.exists(f): jobs[(pid,k,'r')]=ex.submit(run,f)
c=collections.Counter(); rsil=rtot=0
for pid in ids:
    for k in (1,2,3):
        if (pid,k,'m') not in jobs: print(pid,k,'missing'); continue
        rm=jobs[(pid,k,'m')].result(); rf=jobs[(pid,k,'r')].result() if (pid,k,'r') in jobs else set()
        if rm is None or rf is None: print(pid,k,'APPLY-FAIL'); continue
        only=rm-rf; own=[x for x in only if pid in x[1].split(',')]
        v='DISCRIMINATES(own)' if own else ('discriminates(other)' if only else ('MISSED' if not rm else 'NO-DISCRIMINATION'))
        c[v]+=1
        if (pid,k,'r') in jobs: rtot+=1; rsil+=(len(rf)==0)
        print('%s m%d: m fires %d, r fires %d, only-on-m %d (own %d): %s'%(pid,k,len(rm),len(rf),len(only),len(own),v))
        for x in sorted(own)[:2]: print('      own:',x[0],x[2][:110])
        if not own:
            for x in sorted(only)[:2]: print('      other:',x[0],x[1],x[2][:110])
        if rf: print('      r fires:',' '.join(sorted(set(x[0] for x in rf)))[:200])
print(dict(c)); print('reference refactorings silent: %d of %d'%(rsil,rtot))
