#!/usr/bin/env python3
# usage: gen_briefs.py <round> : writes /tmp/seedout<round>/<ID>/brief.txt and property.json, creates worktrees /tmp/seed<round>/<ID>
import json,os,sys,glob,subprocess
rn=sys.argv[1]
props=[json.loads(l) for l in open('/verif/properties.jsonl')]
tmpl=open('/verif/tools/dev/brief_template_round9.txt').read()
for p in props:
    pid=p['id']; wt=f'/tmp/seed{rn}/{pid}'; out=f'/tmp/seedout{rn}/{pid}'
    os.makedirs(out,exist_ok=True)
    json.dump(p,open(out+'/property.json','w'),indent=1)
    if not os.path.isdir(wt):
        subprocess.run(['git','-C','/repo','worktree','add','-q','--detach',wt,'HEAD'],check=True)
    expl=[]
    for d in sorted(glob.glob(f'/verif/seeded/{pid}-r*')):
        try: m=json.load(open(d+'/meta.json'))
        except Exception: continue
        s=' '.join(m.get('summary','').split())
        expl.append('  * '+s[:260])
    anchors=p.get('anchors')
    files=sorted({a.get('file','') for a in anchors if isinstance(a,dict)}) if isinstance(anchors,list) else []
    mech='\n'.join('  - %s (%s: %s)'%(a.get('mechanism',a.get('what','')),a.get('file',''),', '.join(a.get('symbols',[])) if isinstance(a.get('symbols'),list) else a.get('symbols','')) for a in anchors) if isinstance(anchors,list) else json.dumps(anchors)
    b=tmpl.replace('{WT}',wt).replace('{OUT}',out).replace('{ID}',pid).replace('{TITLE}',p['title']).replace('{STATEMENT}',p['statement']).replace('{QUANT}',p['quantifier']['text'] if isinstance(p['quantifier'],dict) else str(p['quantifier'])).replace('{WHY}',p['why_tests_cant']).replace('{ANCHORS}',json.dumps(anchors,indent=1)).replace('{EXPLORED}','\n'.join(expl))
    open(out+'/brief.txt','w').write(b)
print('ok')
