#!/bin/bash
# Apply each behaviour-preserving change to /repo, run all rules, report anything that fires (= false alarm candidates), revert.
cd /verif && . ./env.sh && ./setup.sh >/dev/null || exit 1
for p in ${@:-/tmp/neutralout/*/n*.diff}; do
  [ -f "$p" ] || continue
  a=$(basename $(dirname $p)); k=$(basename $p .diff)
  git -C /repo checkout -q -- . ; git -C /repo clean -fdq internal 2>/dev/null
  if ! git -C /repo apply $p 2>/dev/null; then echo "$a $k APPLY-FAIL"; continue; fi
  res=$(bin/jmescheck -allrules 2>&1 | grep -v '^WARNING')
  git -C /repo checkout -q -- .; git -C /repo clean -fdq internal *.go 2>/dev/null
  n=$(echo "$res" | grep -cE '^(violated|undecided)')
  if [ "$n" = 0 ]; then echo "$a $k silent"; else echo "$a $k FIRED($n):"; echo "$res" | grep -E '^(violated|undecided|LOAD)' | cut -c1-330 | sed 's/^/      /'; fi
done
git -C /repo status --short | head -3
