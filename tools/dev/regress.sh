#!/bin/bash
# run the 20 quick checks, print exit codes and self-test summary
cd /verif && . ./env.sh && ./setup.sh >/dev/null || exit 1
for i in $(seq -w 1 20); do ( ./check C$i quick > /tmp/reg_C$i.log 2>&1; echo "C$i exit=$?" >> /tmp/reg_C$i.log ) & done; wait
for i in $(seq -w 1 20); do
  e=$(grep -o 'exit=[0-9]*' /tmp/reg_C$i.log | tail -1)
  st=$(python3 -c "
import json
d=json.load(open('/verif/evidence/C$i.json'))['coverage']['selftest']
print(d['total'],'seeds',d['as_expected'],'ok', ' '.join(d.get('missed',[]) or []))
")
  echo "C$i $e $st $(grep -c VIOLATION /tmp/reg_C$i.log) viol"
done
