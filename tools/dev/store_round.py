#!/usr/bin/env python3
# usage: store_round.py <round-number> <outdir> [ids...]
import json,os,shutil,glob,sys
rn=sys.argv[1]; src=sys.argv[2]; ids=sys.argv[3:]
ns=np=nn=0
for d in sorted(glob.glob(src+'/C*')):
    pid=os.path.basename(d)
    if ids and pid not in ids: continue
    if not os.path.exists(f'{d}/m3.json'): continue
    for k in (1,2,3):
        m=f'{d}/m{k}.diff'; r=f'{d}/r{k}.diff'; demo=f'{d}/m{k}_demo_test.go'; mj=f'{d}/m{k}.json'
        meta=json.load(open(mj))
        out=f'/verif/seeded/{pid}-r{rn}-m{k}'
        os.makedirs(out,exist_ok=True)
        shutil.copy(m,out+'/patch.diff'); shutil.copy(demo,out+'/demo_test.go')
        meta2={'property':pid,'summary':meta.get('summary',''),'files':meta.get('files',[]),'needs_to_manifest':meta.get('needs_to_manifest',''),
          'origin':f'round {rn}: written by an independent sub-agent that saw only the property text, summaries of earlier changes and a scratch worktree; '+({1:'a plain slip of one to five lines, preferably inside a helper that computes results',2:'two cooperating edits at two sites, each harmless alone (round 9) / a second plain slip (rounds 6, 7)',3:'a small everyday refactoring (10-40 lines, kept as the reference member of the pair) with one slip'}[k]),
          'confirmed_at_repo_commit':'0a5d9c8',
          'confirmed_by_me':['git apply patch.diff in a scratch worktree of /repo HEAD','go build ./... && go vet ./...  -> clean','go test -count=1 ./...  -> existing suite passes with the patch','cp demo_test.go seed_demo_test.go && go test -count=1 -run TestSeedDemo .  -> FAILS with the patch, PASSES on HEAD'+('' if k<3 else ' and with the reference refactoring')]}
        json.dump(meta2,open(out+'/meta.json','w'),indent=1); ns+=1
        if k==3:
            po=f'/verif/pairs/{pid}-r{rn}-3'
            os.makedirs(po,exist_ok=True)
            shutil.copy(m,po+'/defect.diff'); shutil.copy(r,po+'/repaired.diff')
            json.dump({'repaired':f'the reference member of a round-{rn} pair: the same small refactoring without the slip (written first, differentially tested against HEAD by its author)','kept_restructuring':True,'checks_run':meta.get('commands_run',[])},open(po+'/repair.json','w'),indent=1); np+=1
            no=f'/verif/neutral/{pid}ref-r{rn}-n3'
            os.makedirs(no,exist_ok=True)
            shutil.copy(r,no+'/patch.diff')
            json.dump({'area':pid+f' (reference refactoring of a round-{rn} pair)','summary':meta.get('summary',''),'kind':'small everyday refactoring written as the behaviour-preserving member of a (reference, slip) pair','why_behaviour_preserving':'written as a behaviour-preserving change and checked differentially against HEAD by its author; the demonstration of the slip passes with it','checks_run':['go build ./... && go vet ./... (clean)','go test -count=1 ./... (pass)','demonstration of the paired slip passes']},open(no+'/meta.json','w'),indent=1); nn+=1
print(ns,np,nn)
