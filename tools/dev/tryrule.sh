#!/bin/bash
# usage: tryrule.sh RULE patch...   — apply each patch to /repo, run one rule, print non-discharged, revert
rule=$1; shift
cd /verif
for p in "$@"; do
  git -C /repo checkout -q -- . ; git -C /repo clean -fdq 2>/dev/null
  if ! git -C /repo apply $p 2>/dev/null; then echo "$p APPLY-FAIL"; continue; fi
  res=$(bin/jmescheck -rule $rule -dump 2>&1 | grep -v '^WARNING')
  git -C /repo checkout -q -- .; git -C /repo clean -fdq 2>/dev/null
  n=$(echo "$res" | grep -cE '^(violated|undecided)')
  echo "== $p: $n fired; $(echo "$res" | tail -1)"
  echo "$res" | grep -E '^(violated|undecided)' | cut -c1-400 | head -${MAXL:-6}
done
git -C /repo status --short | head -3
