#!/bin/bash
# usage: tryrule_wt.sh RULE patch...   — like tryrule.sh, but each patch is applied in a scratch worktree (/repo is not touched,
# so registered checks may run at the same time)
rule=$1; shift
cd /verif; . ./env.sh
W=$(mktemp -u /tmp/trw_XXXX)
git -C /repo worktree add -q --detach $W HEAD || exit 1
for p in "$@"; do
  git -C $W checkout -q -- . ; git -C $W clean -fdq
  if ! git -C $W apply $p 2>/dev/null; then echo "$p APPLY-FAIL"; continue; fi
  res=$(${JMESCHECK_BIN:-bin/jmescheck} -repo $W -rule $rule -dump 2>&1 | grep -v '^WARNING')
  n=$(echo "$res" | grep -cE '^(violated|undecided)')
  echo "== $p: $n fired; $(echo "$res" | tail -1)"
  echo "$res" | grep -E '^(violated|undecided)' | cut -c1-400 | head -${MAXL:-6}
done
git -C /repo worktree remove --force $W
