#!/bin/bash
# round 9: m<k> (defective) and r<k> (reference refactoring): build/vet/suite/demo
set -u
W=/tmp/val9
git -C /repo worktree remove --force $W 2>/dev/null
git -C /repo worktree add -q --detach $W HEAD || exit 1
cd $W
for d in ${DIRS:-/tmp/seedout9/C*/}; do
  id=$(basename $d)
  for k in 1 2 3; do
    for v in m r; do
      p=$d/$v$k.diff; t=$d/m${k}_demo_test.go
      [ -f $p ] || { [ "$v$k" = "r1" -o "$v$k" = "r2" ] || echo "$id $v$k MISSING"; continue; }
      git checkout -q -- . ; git clean -fdq ; rm -f seed_demo_test.go
      if ! git apply $p 2>/tmp/val9_apply.log; then echo "$id $v$k APPLY-FAIL $(head -1 /tmp/val9_apply.log)"; continue; fi
      build=$(go build ./... >/dev/null 2>&1 && go vet ./... >/dev/null 2>&1 && echo ok || echo BUILD-FAIL)
      suite=$(go test -count=1 ./... >/tmp/val9_suite.log 2>&1 && echo pass || echo FAIL)
      cp $t seed_demo_test.go
      demo=$(timeout 180 go test -count=1 -run 'TestSeedDemo' . >/tmp/val9_demo.log 2>&1 && echo pass || echo fail)
      rm -f seed_demo_test.go
      echo "$id $v$k build=$build suite=$suite demo=$demo"
    done
  done
done
git checkout -q -- . ; git clean -fdq; cd / ; git -C /repo worktree remove --force $W
