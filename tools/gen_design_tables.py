#!/usr/bin/env python3
"""Regenerates the generated sections of DESIGN.md (rule catalogue, seeded-change table) between markers. Run from /verif after the quick checks have written evidence/."""
import json, glob, os, re, subprocess

def rules_table():
    out = subprocess.run(["bin/jmescheck", "-listdoc"], capture_output=True, text=True).stdout
    return "| rule | properties | what is enumerated and required |\n|---|---|---|\n" + out

def seeds_table():
    fired = {}
    for f in sorted(glob.glob("evidence/C*.json")):
        ev = json.load(open(f))
        st = ev["coverage"].get("selftest") or {}
        for line in st.get("passed", []) or []:
            m = re.match(r"seeded/(\S+): fired: (\S+) (.*)", line)
            if m:
                fired.setdefault(m.group(1), []).append(m.group(2))
        for line in (st.get("missed") or []):
            m = re.match(r"seeded/(\S+):", line)
            if m:
                fired.setdefault(m.group(1), []).append("**MISSED**")
    rows = ["| seeded change | property | what was changed (author's summary, abridged) | needs to manifest | first rule of its own property that fires |", "|---|---|---|---|---|"]
    for d in sorted(glob.glob("seeded/*/meta.json")):
        m = json.load(open(d))
        name = os.path.basename(os.path.dirname(d))
        summ = re.sub(r"\s+", " ", m.get("summary", "")).replace("|", "\\|")
        need = re.sub(r"\s+", " ", m.get("needs_to_manifest", "")).replace("|", "\\|")
        if len(summ) > 230: summ = summ[:227] + "…"
        if len(need) > 150: need = need[:147] + "…"
        rows.append(f"| {name} | {m['property']} | {summ} | {need} | {', '.join(sorted(set(fired.get(name, ['(not run)']))))} |")
    return "\n".join(rows) + "\n"

s = open("DESIGN.md").read()
for tag, gen in (("RULES", rules_table), ("SEEDS", seeds_table)):
    a, b = f"<!-- BEGIN GENERATED {tag} -->", f"<!-- END GENERATED {tag} -->"
    if a in s and b in s:
        s = s[:s.index(a) + len(a)] + "\n" + gen() + s[s.index(b):]
open("DESIGN.md", "w").write(s)
print("DESIGN.md tables regenerated")
