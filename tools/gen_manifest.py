#!/usr/bin/env python3
"""Regenerates /verif/MANIFEST.json from the table below (run from /verif)."""
import json, subprocess

P = {
 "C01": ("structural necessary conditions of the core semantics: exhaustive dispatch with the right helper and argument threading per node, null on wrongly-typed selection, null-pruning in every projection producer, projection levels / selector continuation / node threading in the Pratt loop, binding-power table, no write to the input during evaluation",
         "does not decide the values helpers compute (index arithmetic, flatten depth, …); a change that keeps routing, pruning and null-ness intact is invisible"),
 "C02": ("arity and expression-reference position of all 41 built-ins computed from the parser's helpers against the specification table; invalid-type on every failed type test, the integer-coercion protocol (non-number → invalid-type, non-integer → invalid-value, negative count → invalid-value), scope threading into expression references, stable sort_by; arguments the specification types `any` never reach an invalid-type return; the integer coercion accepts exactly the values of each numeric kind that fit an int",
         "does not decide result values, defaults of optional arguments or in-range behaviour of each function"),
 "C03": ("absence of the enumerated panic classes on every path: unchecked type assertions, nil interface receivers in Error(), reversed two-sided slices, constant indices without a length fact, division by zero, magnitude-driven allocations, explicit panics / Must* / NaN-panicking decimal methods, interface == on uncomparable values, dropped errors; unbounded recursion is a recorded finding",
         "general index/slice bounds safety (135 bounds checks the compiler cannot prove) and nil-map/nil-pointer safety beyond the listed receivers are not decided"),
 "C04": ("the token language (every path of the lexer over symbolic runes yields exactly the tokens of the lexical grammar for exactly their spellings) and the phrase structure one level at a time (the token/sub-expression sequences each grammar function accepts are exactly the productions of the specification, every consumed token pinned); exhaustive token dispatch, no swallowed scanner/decoder error, character classes and escape tables of the literal decoders, strict JSON-literal decoding, every parse failure mapped to a syntax error except the four static function/slice faults",
         "the composition of the per-function productions into the whole recursive language is not decided (each sub-parser call is opaque in its caller)"),
 "C05": ("no value routed through binary floating point or machine integers unless it arrived that way; per-kind value-preserving decimal constructors; operator → decimal128 primitive chain with operand order; Inf/NaN trapped on every arithmetic result and mapped to not-a-number; no struct equality on decimals",
         "decimal128 itself is trusted; numeric results and rounding of //, % for mixed signs are not decided"),
 "C06": ("effect analysis: no instruction of the evaluator/root packages writes memory not allocated in the same call (incl. append into spare capacity, in-place sorts, library mutators); AST, Expression and evaluator are write-once; no package state; API wrappers have the documented shape and MustCompile panics exactly on the Parse error",
         "under the stated table of library effects this is close to sufficient for purity; equality of the function computed with a fresh Search is not otherwise decided"),
 "C07": ("a data race needs a write to shared memory: package variables never written after init, AST/Expression/document never written, no goroutines/channels, no sync/atomic/time/rand/os/runtime use",
         "read-only use of reflect, encoding/json, strings, sort on shared data is assumed race-free; interleavings are not explored (absence of shared writes is decided instead)"),
 "C08": ("complete mapping internal error type → public type → exactly one sentinel against the specification table; nil result on failure; static faults come only from Parse, which never sees the data and dominates evaluation; arity/unknown-function/expression-reference faults raised in the parser; wrappers may not hide categories",
         "which of several simultaneous faults is reported is not decided (the property allows any)"),
 "C09": ("every evaluator loop and allocation bounded by input sizes (never by an integer's magnitude), decode loops advance, lexer/decoder loops make progress, parser recursion consumes a token per cycle, evaluator recursion is structural and evaluates each child once per path",
         "the degree of the polynomial and library call costs are assumed; unbounded recursion depth is a recorded finding"),
 "C10": ("binding-power order (precedence interpreted on every token), one enumerated iteration of the operator loop per token and caller power: taken exactly when strictly tighter, right operand at the operator's own power (left associativity), own node from untouched operands, next comparison on the then-current token; prefix operand powers, powers inside delimiters below the pipe, closing parenthesis, operator → primitive chain",
         "for a Pratt parser these table and loop facts are the grouping; interaction with projections is covered under C01"),
 "C11": ("units analysis separating byte quantities from code-point quantities in every integer operation, string cut and integer result; no byte indexing of strings; decode loops advance; lexer positions move only by decoded sizes; U+FFFD is a character",
         "code-point ordering of string comparison is a library fact; the rename-equivariance clause as such is not decided"),
 "C12": ("parser defaults and absence flags, step 0 is the only error, is-a-projection flag, string bypass exactly for slice nodes, ordered two-sided slices, bounded walks, array/string clamp siblings agree; the clamping arithmetic of the two slice helpers on arrays, by interpretation with symbolic start/stop/step/length in a linear-inequality domain: in every region of (sign of step, start, stop, length) the specification distinguishes the result is empty exactly where the specified walk is, a[lo:hi] has the specified bounds, and a stepped result has ceil(|hi-lo|/|step|) elements read from lo, lo+step, ...; for strings the clamp-only empty results and the reserved result length",
         "the walk over the characters of a string (skipping lo code points, taking every step-th) is not decided beyond the clamp siblings and the units/decode rules; machine wrap-around at the 64-bit limits is not modelled (linear forms are over the integers)"),
 "C13": ("sort_by reaches only a stable sort with strict Less and complete Swap, sorting happens on a clone, type errors are decided by scanning every element (never inside a comparator), keys compared as decimals",
         "that comparison is by value/code point (library facts) and extremal-element selection beyond type checks are not decided"),
 "C14": ("every numeric classification lists the same 14 kinds with uniform results; float and decimal paths trap the same conditions and round the same way (integerDivide is a recorded finding); integer coercion decided on the decimal value; lossless integer conversions; coerced integers never become results; the interval of values each machine-integer kind may pass as an integer argument is exactly the part of the kind that fits an int (host and 32-bit), floats only after a comparison with both bounds of int",
         "equality of values produced by the float64 and decimal128 paths outside exact representability is not decided"),
 "C15": ("the only nondeterminism source available is map iteration: every map range is order-insensitive except in the exempted member enumerators; no time/rand/env/goroutines/pointer values; no state between calls; no writes to the input",
         "encoding/json and sort are assumed deterministic"),
 "C16": ("scanners stop at their own delimiter and skip exactly one decoded rune after a backslash; raw-string, quoted-identifier and backtick unescaping tables; UseNumber and trailing-input test; a literal whose text decodes completely is rejected only when its value is none of the six JSON carriers; U+FFFD accepted; no decode failure turned into a value",
         "the round trip as a whole needs the escaper, which is not in the repository"),
 "C17": ("contradictions between sibling implementations that make two spellings diverge: all projection producers prune null, Current/non-Current pairs dispatch alike, selector continuation vs pipe decided on exactly the projecting nodes, projection stop levels per construct, parentheses end a projection, sibling construction sites agree",
         "the identities as equalities of values for arbitrary sub-expressions are not decided"),
 "C18": ("closed set of concrete types that can enter a result, no locally-nil containers, pipe threads the left result as current node, no byte length leaks, slice projection levels",
         "equality of re-querying with piping as values; foreign input values pass through untouched by design"),
 "C19": ("scope threading at every call site, bindings evaluated in the outer scope and context, child scope only for the body, comma-ok nearest-binding-first lookup, let body parsed at entry power, no evaluator state, binding maps order-insensitive",
         "tokenisation of $name/let/in beyond the character-class and closer rules"),
 "C20": ("truthiness table and its single point of use, &&/|| return operands, != negates the same relation, contains uses it, containers compared under a length test and comma-ok key presence, no ==/!= on decimals or interfaces",
         "reflexivity/symmetry/transitivity as such (e.g. decimal NaN) are value facts"),
}

def rules_of(pid):
    out = subprocess.run(["bin/jmescheck", "-list"], capture_output=True, text=True).stdout
    rs = []
    for l in out.splitlines():
        f = l.split()
        if len(f) >= 2 and pid in f[1].split(","):
            rs.append(f[0])
    return rs

INTERP = {"T-LEX", "T-PREC", "T-INFIX", "T-PRIMARY", "T-INDEX", "T-FUNC", "T-DELIMS", "T-LOOPS", "D-DISPATCH", "E-OPCHAIN", "E-TOINT", "E-TYPE-FIRST", "E-SCOPE-CHAIN", "E-NODESETS", "E-TRUTHY", "A-ERRMAP", "A-ERR-IS", "A-API-SHAPE", "A-NIL-RESULT", "E-PRUNE", "E-SELECTOR-NULL", "E-FILTER-GUARDS-RHS", "E-TIES", "E-FLOATPAIR", "E-PARSE-STRICT", "P-DECODE", "E-EXHAUST", "E-ELEMTESTS", "E-EXTREMES", "E-MAKE-CAP", "E-DIRECTION", "T-FUNC-NOPANIC", "P-JSON-DECODE", "E-EACH-ONCE", "E-CONTAINER-KIND", "T-DECODER", "E-COERCION-TABLE", "E-CLAMP-SPEC", "E-FROMITEMS"}

def technique(rs):
    interp = [r for r in rs if r in INTERP]
    other = [r for r in rs if r not in INTERP]
    t = "static analysis of the type-checked program and its SSA form, nothing executed: "
    parts = []
    if interp:
        parts.append("path-enumerating abstract interpretation over go/ssa with symbolic tokens/runes/nodes/operands, repository helpers inlined, compared with the specification's tables (" + ", ".join(interp) + ")")
    if other:
        parts.append("dominance / dataflow / effect / size-bound / units / call-graph rules (" + ", ".join(other[:8]) + (" …" if len(other) > 8 else "") + ")")
    return t + "; ".join(parts)

checks = []
for pid in sorted(P):
    decided, notdec = P[pid]
    rs = rules_of(pid)
    checks.append({
        "property_id": pid,
        "quick_cmd": f"./check {pid} quick",
        "thorough_cmd": f"./check {pid} thorough",
        "evidence_file": f"/verif/evidence/{pid}.json",
        "replay_cmd_template": f"./check {pid} --replay {{path}}",
        "engine": "jmescheck",
        "level_claimed": {
            "category": "other",
            "text": "Static analysis of /repo's current source (no execution). Decides, on every path of the API-reachable code, these structural necessary conditions of the property: " + decided + ". Every rule instance must be discharged; an instance the rule cannot decide fails the check. It decides these clauses and not the behaviour as a whole: " + notdec + ".",
            "design_ref": "DESIGN.md §5 " + pid + ", rules in §4",
        },
        "level_note": "Trusted: go/types, go/ssa, CHA/VTA call graphs of golang.org/x/tools v0.50.0; decimal128 and the standard library behave as documented (bodies not analysed; effects of library callees come from the table in DESIGN.md Appendix B); the specification-side tables in the checker (Appendix D). Rules: " + ", ".join(rs) + ".",
        "technique": technique(rs),
    })

m = {
 "version": 1,
 "setup_cmd": "./setup.sh",
 "hooks": {"guard": "verif", "enable": "none needed: the checks are static analyses and execute nothing from /repo; no hook commits exist", "baseline_off_cmd": "cd /repo && go test -count=1 ./...", "source_commits": [], "add_only": True},
 "engines": [{"name": "jmescheck", "path": "/verif/checker", "serves_properties": sorted(P), "kind_free_text": "Go program (go/packages + go/types + go/ssa + call graph, x/tools v0.50.0, go1.26.8): 100 repository-specific rules, 39 of them clients of a path-enumerating abstract interpreter over SSA (absint.go); obligations keyed by rule+construct; known-findings file; in-memory mutant self-test (479 independently written breaking changes must fire; 240 behaviour-preserving refactorings are re-applied in the thorough tier and every rule is expected to stay silent on them)"}],
 "checks": checks,
 "not_applicable": [],
 "notes": "All 20 properties are claimed at level 'other': each check decides named structural clauses (see level_claimed.text) and states what it does not decide. Clauses for which static analysis is not applicable here: values computed by helpers (C01, C02, C05, C13, C20); composition of the per-function productions into the whole recursive language (C04); the walk over the characters of a string slice and machine wrap-around at the 64-bit limits (C12; the clamping arithmetic on arrays is decided); general bounds safety (C03); value-level identities (C17, C18); polynomial degree (C09); actual interleavings (C07 is decided by absence of shared writes). quick = host architecture, CHA call graph, quick mutants; thorough = also GOARCH=386 and arm64, VTA call graph, full mutant corpus plus the neutral-refactoring corpus (every rule must stay silent on it).",
}
json.dump(m, open("MANIFEST.json", "w"), indent=1)
print("wrote MANIFEST.json with", len(checks), "checks")
