#!/usr/bin/env python3
# For each pair under /verif/pairs (defect.diff, repaired.diff): obligations that fire on m but not on f.
import subprocess,sys,os,re,json
os.chdir('/verif')
env=dict(os.environ)
def run(diff):
    subprocess.run(['git','-C','/repo','checkout','-q','--','.']); subprocess.run(['git','-C','/repo','clean','-fdq'])
    r=subprocess.run(['git','-C','/repo','apply',diff],capture_output=True,text=True)
    if r.returncode!=0: return None
    out=subprocess.run(['bin/jmescheck','-allrules','-dump'],capture_output=True,text=True).stdout
    subprocess.run(['git','-C','/repo','checkout','-q','--','.']); subprocess.run(['git','-C','/repo','clean','-fdq'])
    res=set()
    for l in out.splitlines():
        m=re.match(r'^(violated|undecided)\s+(\S+)\s+\[([^\]]*)\]\s+(\S+)\s+(.*?) :: ',l)
        if m: res.add((m.group(2),m.group(3),m.group(5)))
    return res
ids=sys.argv[1:] or ['C%02d'%i for i in range(1,21)]
summary=[]
import glob
for pid in ids:
    for d in sorted(glob.glob('/verif/pairs/%s-r*-*'%pid)):
        k=os.path.basename(d)[len(pid)+1:]
        m=d+'/defect.diff'; f=d+'/repaired.diff'
        if not (os.path.exists(m) and os.path.exists(f)): print(pid,k,'missing'); continue
        rm,rf=run(m),run(f)
        if rm is None or rf is None: print(pid,k,'APPLY-FAIL',rm is None, rf is None); continue
        only=rm-rf
        own=[x for x in only if pid in x[1].split(',')]
        verdict='DISCRIMINATES(own)' if own else ('discriminates(other)' if only else ('both-silent' if not rm else 'NO-DISCRIMINATION'))
        print('%s %s: m fires %d, f fires %d, only-on-m %d (own %d): %s'%(pid,k,len(rm),len(rf),len(only),len(own),verdict))
        for x in sorted(own)[:2]: print('      own:',x[0],x[2][:120])
        if not own:
            for x in sorted(only)[:2]: print('      other:',x[0],x[2][:120])
        frules=sorted(set(x[0] for x in rf))
        if rf: print('      f fires:',' '.join(frules)[:200])
        summary.append((pid,k,verdict,len(rf)))
print()
import collections
c=collections.Counter(v for _,_,v,_ in summary)
print(dict(c)); print('repaired versions silent:',sum(1 for s in summary if s[3]==0),'of',len(summary))
